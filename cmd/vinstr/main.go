// vinstr instruments the current non-test sources of package restful for engine E3 and writes a
// `go build -overlay` file. /repo is never written. See DESIGN.md §4.1.
package main

import (
	"bytes"
	"encoding/json"
	"flag"
	"fmt"
	"go/ast"
	"go/importer"
	"go/parser"
	"go/printer"
	"go/token"
	"go/types"
	"os"
	"path/filepath"
	"sort"
	"strings"
)

const shimPath = "github.com/emicklei/go-restful/v3/zverif/vsched"
const logPath = "github.com/emicklei/go-restful/v3/log"

type report struct {
	Files            []string `json:"files"`
	FieldReads       int      `json:"field_reads_instrumented"`
	FieldWrites      int      `json:"field_writes_instrumented"`
	SliceOps         int      `json:"slice_copy_append_range_instrumented"`
	ElemAccesses     int      `json:"slice_element_index_accesses_instrumented"`
	MapAccesses      int      `json:"map_accesses_instrumented"`
	Globals          int      `json:"package_level_variables_restored_before_each_execution"`
	SkippedImpure    []string `json:"accesses_skipped_impure_or_unaddressable"`
	ChannelPoints    []string `json:"channel_scheduling_points"`
	OwnedMapRanges   []string `json:"owned_map_ranges"`
	UnownedMapRanges []string `json:"unowned_map_ranges"`
	SyncFiles        []string `json:"files_with_sync_rewritten"`
	Nondeterminism   []string `json:"time_or_random_imports"`
	Locations        []string `json:"instrumented_locations"`
}

type srcImporter struct {
	fset *token.FileSet
	std  types.Importer
	repo string
	log  *types.Package
}

func (s *srcImporter) Import(path string) (*types.Package, error) {
	if path == logPath {
		if s.log != nil {
			return s.log, nil
		}
		pkgs, err := parser.ParseDir(s.fset, filepath.Join(s.repo, "log"), func(fi os.FileInfo) bool { return !strings.HasSuffix(fi.Name(), "_test.go") }, 0)
		if err != nil {
			return nil, err
		}
		for _, p := range pkgs {
			var files []*ast.File
			for _, f := range p.Files {
				files = append(files, f)
			}
			conf := types.Config{Importer: s.std}
			pkg, err := conf.Check(logPath, s.fset, files, nil)
			if err != nil {
				return nil, err
			}
			s.log = pkg
			return pkg, nil
		}
		return nil, fmt.Errorf("no package in %s/log", s.repo)
	}
	return s.std.Import(path)
}

var mapWatch = map[string]bool{"accessorAt": true}

func main() {
	repo := flag.String("repo", "/repo", "repository root")
	out := flag.String("out", "", "output directory")
	vs := flag.String("vsched", "", "directory with the vsched sources")
	flag.Parse()
	if *out == "" || *vs == "" {
		fmt.Fprintln(os.Stderr, "usage: vinstr -repo /repo -out DIR -vsched DIR")
		os.Exit(2)
	}
	os.MkdirAll(*out, 0o755)
	fset := token.NewFileSet()
	entries, err := os.ReadDir(*repo)
	if err != nil {
		fatal(err)
	}
	var files []*ast.File
	var names []string
	for _, e := range entries {
		n := e.Name()
		if e.IsDir() || !strings.HasSuffix(n, ".go") || strings.HasSuffix(n, "_test.go") {
			continue
		}
		f, err := parser.ParseFile(fset, filepath.Join(*repo, n), nil, parser.ParseComments)
		if err != nil {
			fatal(err)
		}
		if f.Name.Name != "restful" {
			continue
		}
		files = append(files, f)
		names = append(names, n)
	}
	imp := &srcImporter{fset: fset, std: importer.ForCompiler(fset, "source", nil), repo: *repo}
	info := &types.Info{Types: map[ast.Expr]types.TypeAndValue{}, Uses: map[*ast.Ident]types.Object{}, Defs: map[*ast.Ident]types.Object{}, Selections: map[*ast.SelectorExpr]*types.Selection{}}
	conf := types.Config{Importer: imp}
	pkg, err := conf.Check("github.com/emicklei/go-restful/v3", fset, files, info)
	if err != nil {
		fatal(fmt.Errorf("type-check of %s failed: %v", *repo, err))
	}
	rep := &report{}
	locs := map[string]bool{}
	overlay := map[string]string{}
	for i, f := range files {
		in := &instr{fset: fset, info: info, pkg: pkg, file: f, rep: rep, fname: names[i], locs: locs}
		in.run()
		// comments are dropped: positions of inserted nodes would misplace them
		f.Comments = nil
		var buf bytes.Buffer
		if err := (&printer.Config{Mode: printer.UseSpaces | printer.TabIndent, Tabwidth: 8}).Fprint(&buf, fset, f); err != nil {
			fatal(err)
		}
		dst := filepath.Join(*out, names[i])
		if err := os.WriteFile(dst, buf.Bytes(), 0o644); err != nil {
			fatal(err)
		}
		// the rewritten file must parse
		if _, err := parser.ParseFile(token.NewFileSet(), dst, nil, 0); err != nil {
			fatal(fmt.Errorf("instrumented %s does not parse: %v", names[i], err))
		}
		overlay[filepath.Join(*repo, names[i])] = dst
		rep.Files = append(rep.Files, names[i])
	}
	// virtual scheduler package
	vfiles, _ := os.ReadDir(*vs)
	for _, e := range vfiles {
		if strings.HasSuffix(e.Name(), ".go") && !strings.HasSuffix(e.Name(), "_test.go") {
			overlay[filepath.Join(*repo, "zverif", "vsched", e.Name())] = filepath.Join(*vs, e.Name())
		}
	}
	afiles, _ := os.ReadDir(filepath.Join(*vs, "vatomic"))
	for _, e := range afiles {
		if strings.HasSuffix(e.Name(), ".go") && !strings.HasSuffix(e.Name(), "_test.go") {
			overlay[filepath.Join(*repo, "zverif", "vsched", "vatomic", e.Name())] = filepath.Join(*vs, "vatomic", e.Name())
		}
	}
	// marker file in package restful under the guard tag
	marker := filepath.Join(*out, "zz_verif_overlay.go")
	// every package-level variable of the package, by address: the explorer restores their values
	// before each execution (vsched.GlobalSnapshot)
	var globals []string
	for _, name := range pkg.Scope().Names() {
		if v, ok := pkg.Scope().Lookup(name).(*types.Var); ok && name != "_" {
			_ = v
			globals = append(globals, "&"+name)
		}
	}
	rep.Globals = len(globals)
	os.WriteFile(marker, []byte("//go:build verif\n\npackage restful\n\n// VerifInstrumented reports that the E3 instrumentation overlay is compiled in.\nfunc VerifInstrumented() bool { return true }\n\n// VerifGlobals lists the package-level variables of the package by address.\nfunc VerifGlobals() []interface{} {\n\treturn []interface{}{"+strings.Join(globals, ", ")+"}\n}\n"), 0o644)
	overlay[filepath.Join(*repo, "zz_verif_overlay.go")] = marker
	for l := range locs {
		rep.Locations = append(rep.Locations, l)
	}
	sort.Strings(rep.Locations)
	data, _ := json.MarshalIndent(map[string]interface{}{"Replace": overlay}, "", " ")
	os.WriteFile(filepath.Join(*out, "overlay.json"), data, 0o644)
	rdata, _ := json.MarshalIndent(rep, "", " ")
	os.WriteFile(filepath.Join(*out, "report.json"), rdata, 0o644)
	fmt.Printf("vinstr: %d files, %d reads, %d writes, %d slice ops, %d channel points, %d owned / %d unowned map ranges\n", len(files), rep.FieldReads, rep.FieldWrites, rep.SliceOps, len(rep.ChannelPoints), len(rep.OwnedMapRanges), len(rep.UnownedMapRanges))
}

func fatal(err error) {
	fmt.Fprintln(os.Stderr, "vinstr:", err)
	os.Exit(2)
}

type instr struct {
	fset       *token.FileSet
	info       *types.Info
	pkg        *types.Package
	file       *ast.File
	rep        *report
	fname      string
	locs       map[string]bool
	needVS     bool
	needUnsafe bool
	curFunc    string
}

func (in *instr) pos(n ast.Node) string {
	p := in.fset.Position(n.Pos())
	return fmt.Sprintf("%s:%d", in.fname, p.Line)
}

func (in *instr) run() {
	hasUnsafe := false
	for _, is := range in.file.Imports {
		switch strings.Trim(is.Path.Value, `"`) {
		case "sync":
			is.Name = ast.NewIdent("sync")
			is.Path.Value = `"` + shimPath + `"`
			in.rep.SyncFiles = append(in.rep.SyncFiles, in.fname)
		case "sync/atomic":
			is.Name = ast.NewIdent("atomic")
			is.Path.Value = `"` + shimPath + `/vatomic"`
			in.rep.SyncFiles = append(in.rep.SyncFiles, in.fname+" (sync/atomic)")
		case "time", "math/rand", "crypto/rand":
			in.rep.Nondeterminism = append(in.rep.Nondeterminism, in.fname+": "+is.Path.Value)
		case "unsafe":
			hasUnsafe = true
		}
	}
	for _, d := range in.file.Decls {
		if fd, ok := d.(*ast.FuncDecl); ok && fd.Body != nil {
			in.curFunc = fd.Name.Name
			fd.Body.List = in.block(fd.Body.List)
		}
		if gd, ok := d.(*ast.GenDecl); ok && gd.Tok == token.VAR {
			// function literals in package-level initialisers
			ast.Inspect(gd, func(n ast.Node) bool {
				if fl, ok := n.(*ast.FuncLit); ok {
					in.curFunc = "(init)"
					fl.Body.List = in.block(fl.Body.List)
					return false
				}
				return true
			})
		}
	}
	var specs []ast.Spec
	if in.needVS {
		specs = append(specs, &ast.ImportSpec{Name: ast.NewIdent("vsched"), Path: &ast.BasicLit{Kind: token.STRING, Value: `"` + shimPath + `"`}})
	}
	if in.needUnsafe && !hasUnsafe {
		specs = append(specs, &ast.ImportSpec{Path: &ast.BasicLit{Kind: token.STRING, Value: `"unsafe"`}})
	}
	if len(specs) > 0 {
		gd := &ast.GenDecl{Tok: token.IMPORT, Lparen: 1, Specs: specs}
		in.file.Decls = append([]ast.Decl{gd}, in.file.Decls...)
	}
}

// block instruments a statement list.
func (in *instr) block(list []ast.Stmt) []ast.Stmt {
	var out []ast.Stmt
	for _, s := range list {
		pre, post := in.stmt(s, false)
		out = append(out, pre...)
		out = append(out, s)
		out = append(out, post...)
	}
	return out
}

func (in *instr) nested(s ast.Stmt) {
	switch n := s.(type) {
	case *ast.BlockStmt:
		n.List = in.block(n.List)
	case *ast.IfStmt:
		n.Body.List = in.block(n.Body.List)
		if n.Else != nil {
			if ei, ok := n.Else.(*ast.IfStmt); ok {
				in.stmt(ei, true) // else-if: nothing can be hoisted in front of it
			} else {
				in.nested(n.Else)
			}
		}
	case *ast.ForStmt:
		n.Body.List = in.block(n.Body.List)
	case *ast.RangeStmt:
		n.Body.List = in.block(n.Body.List)
	case *ast.SwitchStmt:
		in.clauses(n.Body)
	case *ast.TypeSwitchStmt:
		in.clauses(n.Body)
	case *ast.SelectStmt:
		in.clauses(n.Body)
	case *ast.LabeledStmt:
		in.nested(n.Stmt)
	}
}

func (in *instr) clauses(b *ast.BlockStmt) {
	for _, c := range b.List {
		switch cc := c.(type) {
		case *ast.CaseClause:
			cc.Body = in.block(cc.Body)
		case *ast.CommClause:
			cc.Body = in.block(cc.Body)
		}
	}
}

// stmt returns the statements to insert before and after s and instruments nested blocks.
func (in *instr) stmt(s ast.Stmt, elseIf bool) (pre, post []ast.Stmt) {
	if ls, ok := s.(*ast.LabeledStmt); ok {
		return in.stmt(ls.Stmt, elseIf)
	}
	// owned map range (must happen before nested instrumentation rewrites the body)
	if rs, ok := s.(*ast.RangeStmt); ok {
		in.mapRange(rs)
	}
	in.nested(s)
	var reads []ast.Expr  // expressions evaluated by s itself (not nested blocks)
	var writes []ast.Expr // assignment targets
	defined := map[types.Object]bool{}
	noteDefs := func(st ast.Stmt) {
		if as, ok := st.(*ast.AssignStmt); ok && as.Tok == token.DEFINE {
			for _, l := range as.Lhs {
				if id, ok := l.(*ast.Ident); ok {
					if o := in.info.Defs[id]; o != nil {
						defined[o] = true
					}
				}
			}
		}
	}
	simple := func(st ast.Stmt) {
		// reads of a simple statement used as Init
		switch n := st.(type) {
		case *ast.AssignStmt:
			reads = append(reads, n.Rhs...)
		case *ast.ExprStmt:
			reads = append(reads, n.X)
		}
	}
	switch n := s.(type) {
	case *ast.ExprStmt:
		reads = append(reads, n.X)
	case *ast.AssignStmt:
		reads = append(reads, n.Rhs...)
		for _, l := range n.Lhs {
			if n.Tok != token.DEFINE {
				writes = append(writes, l)
			}
			// sub-expressions of the target are read (x.f[i] = v reads x.f)
			switch le := l.(type) {
			case *ast.IndexExpr:
				reads = append(reads, le.X, le.Index)
			case *ast.SelectorExpr:
				reads = append(reads, le.X)
			case *ast.StarExpr:
				reads = append(reads, le.X)
			}
			if n.Tok != token.ASSIGN && n.Tok != token.DEFINE {
				reads = append(reads, l)
			}
		}
	case *ast.IncDecStmt:
		reads = append(reads, n.X)
		writes = append(writes, n.X)
	case *ast.ReturnStmt:
		reads = append(reads, n.Results...)
	case *ast.DeferStmt:
		reads = append(reads, n.Call)
	case *ast.GoStmt:
		reads = append(reads, n.Call)
	case *ast.SendStmt:
		reads = append(reads, n.Chan, n.Value)
	case *ast.IfStmt:
		if n.Init != nil {
			noteDefs(n.Init)
			simple(n.Init)
		}
		reads = append(reads, n.Cond)
	case *ast.ForStmt:
		if n.Init != nil {
			noteDefs(n.Init)
			simple(n.Init)
		}
		if n.Cond != nil {
			reads = append(reads, n.Cond)
		}
	case *ast.RangeStmt:
		reads = append(reads, n.X)
	case *ast.SwitchStmt:
		if n.Init != nil {
			noteDefs(n.Init)
			simple(n.Init)
		}
		if n.Tag != nil {
			reads = append(reads, n.Tag)
		}
	case *ast.TypeSwitchStmt:
		if n.Init != nil {
			noteDefs(n.Init)
		}
	case *ast.DeclStmt:
		if gd, ok := n.Decl.(*ast.GenDecl); ok {
			for _, sp := range gd.Specs {
				if vs, ok := sp.(*ast.ValueSpec); ok {
					reads = append(reads, vs.Values...)
				}
			}
		}
	}
	// function literals inside the expressions get their own instrumentation
	for _, e := range reads {
		in.funcLits(e)
	}
	for _, e := range writes {
		in.funcLits(e)
	}
	if elseIf {
		return nil, nil
	}
	// channel operations -> scheduling points
	pre = append(pre, in.chanPoints(s, reads)...)
	// happens-before edges through channels (conservative: acquire + release on the channel's clock)
	post = append(post, in.chanSyncs(s)...)
	// copy / append / range over slices -> element-level accesses
	pre = append(pre, in.sliceOps(s, reads, defined)...)
	// delete(m, k) writes the map, range over a map reads it (a map is one location)
	mapSite := func(m ast.Expr, at ast.Node) (accessSite, bool) {
		tv, ok := in.info.Types[m]
		if !ok || !in.pure(m, defined) {
			return accessSite{}, false
		}
		if _, isMap := tv.Type.Underlying().(*types.Map); !isMap {
			return accessSite{}, false
		}
		in.rep.MapAccesses++
		name := "map " + types.TypeString(tv.Type, func(p *types.Package) string { return p.Name() })
		in.locs[name] = true
		return accessSite{expr: m, name: name, pos: in.pos(at), isMap: true}, true
	}
	if es, ok := s.(*ast.ExprStmt); ok {
		if ce, ok := es.X.(*ast.CallExpr); ok && len(ce.Args) == 2 {
			if id, ok := ce.Fun.(*ast.Ident); ok && id.Name == "delete" {
				if _, builtin := in.info.Uses[id].(*types.Builtin); builtin {
					if acc, ok := mapSite(ce.Args[0], ce); ok {
						pre = append(pre, in.call("WriteF", acc))
					}
				}
			}
		}
	}
	if rs, ok := s.(*ast.RangeStmt); ok {
		if acc, ok := mapSite(rs.X, rs); ok {
			pre = append(pre, in.call("ReadF", acc))
		}
	}
	seen := map[string]bool{}
	for _, e := range reads {
		for _, acc := range in.accesses(e, defined) {
			key := exprString(in.fset, acc.expr)
			if acc.isMap {
				key = "map:" + key
			}
			if seen[key] {
				continue
			}
			seen[key] = true
			pre = append(pre, in.call("ReadF", acc))
			in.rep.FieldReads++
			in.locs[acc.name] = true
		}
	}
	if _, isAssign := s.(*ast.AssignStmt); isAssign || isIncDec(s) {
		for _, w := range writes {
			if acc, ok := in.access(w, defined); ok {
				post = append(post, in.call("WriteF", acc))
				in.rep.FieldWrites++
				in.locs[acc.name] = true
			}
		}
	}
	return pre, post
}

func isIncDec(s ast.Stmt) bool { _, ok := s.(*ast.IncDecStmt); return ok }

func (in *instr) funcLits(e ast.Expr) {
	if e == nil {
		return
	}
	ast.Inspect(e, func(n ast.Node) bool {
		if fl, ok := n.(*ast.FuncLit); ok {
			fl.Body.List = in.block(fl.Body.List)
			return false
		}
		return true
	})
}

type accessSite struct {
	expr  ast.Expr
	name  string
	pos   string
	isMap bool // expr is a map value; the location is the map itself
}

// accesses finds the shared-location reads inside e (not descending into function literals).
// Struct fields and package variables are recorded wherever they occur; elements of slices and
// maps (index expressions) only where the statement evaluates them unconditionally - not in the
// right operand of && / || - so that an access the program may not perform is never recorded.
func (in *instr) accesses(e ast.Expr, defined map[types.Object]bool) []accessSite {
	var out []accessSite
	if e == nil {
		return nil
	}
	var conditional []ast.Node
	ast.Inspect(e, func(n ast.Node) bool {
		if b, ok := n.(*ast.BinaryExpr); ok && (b.Op == token.LAND || b.Op == token.LOR) {
			conditional = append(conditional, b.Y)
		}
		return true
	})
	isConditional := func(n ast.Node) bool {
		for _, c := range conditional {
			if c.Pos() <= n.Pos() && n.End() <= c.End() {
				return true
			}
		}
		return false
	}
	ast.Inspect(e, func(n ast.Node) bool {
		switch x := n.(type) {
		case *ast.FuncLit:
			return false
		case *ast.UnaryExpr:
			if x.Op == token.AND {
				// &x.f does not read x.f; but its base sub-expressions may
				if se, ok := x.X.(*ast.SelectorExpr); ok {
					out = append(out, in.accesses(se.X, defined)...)
					return false
				}
				if ie, ok := x.X.(*ast.IndexExpr); ok {
					out = append(out, in.accesses(ie.X, defined)...)
					out = append(out, in.accesses(ie.Index, defined)...)
					return false
				}
				if _, ok := x.X.(*ast.Ident); ok {
					return false
				}
			}
		case *ast.SelectorExpr, *ast.Ident:
			if acc, ok := in.access(x.(ast.Expr), defined); ok {
				out = append(out, acc)
			}
		case *ast.IndexExpr:
			if !isConditional(x) {
				if acc, ok := in.access(x, defined); ok {
					out = append(out, acc)
				}
			}
		}
		return true
	})
	return out
}

// access classifies one expression as a shared location (struct field of the package or
// package-level variable) that can be observed by address.
func (in *instr) access(e ast.Expr, defined map[types.Object]bool) (accessSite, bool) {
	switch x := e.(type) {
	case *ast.SelectorExpr:
		sel := in.info.Selections[x]
		if sel == nil || sel.Kind() != types.FieldVal {
			return accessSite{}, false
		}
		v, ok := sel.Obj().(*types.Var)
		if !ok || v.Pkg() != in.pkg {
			return accessSite{}, false
		}
		if isSyncType(v.Type()) {
			return accessSite{}, false
		}
		tv, ok := in.info.Types[x]
		if !ok || !tv.Addressable() || !in.pure(x.X, defined) {
			in.rep.SkippedImpure = append(in.rep.SkippedImpure, in.pos(x)+" "+exprString(in.fset, x))
			return accessSite{}, false
		}
		recv := sel.Recv().String()
		recv = strings.TrimPrefix(recv, "*")
		if i := strings.LastIndex(recv, "."); i >= 0 {
			recv = recv[i+1:]
		}
		return accessSite{expr: x, name: recv + "." + v.Name(), pos: in.pos(x)}, true
	case *ast.Ident:
		o := in.info.Uses[x]
		v, ok := o.(*types.Var)
		if !ok || v.IsField() || v.Pkg() != in.pkg || v.Parent() != in.pkg.Scope() {
			return accessSite{}, false
		}
		if isSyncType(v.Type()) {
			return accessSite{}, false
		}
		return accessSite{expr: x, name: "var " + v.Name(), pos: in.pos(x)}, true
	case *ast.IndexExpr:
		tv, ok := in.info.Types[x.X]
		if !ok || !in.pure(x.X, defined) || !in.pure(x.Index, defined) {
			return accessSite{}, false
		}
		short := func(t types.Type) string {
			return types.TypeString(t, func(p *types.Package) string { return p.Name() })
		}
		switch tv.Type.Underlying().(type) {
		case *types.Slice:
			in.rep.ElemAccesses++
			return accessSite{expr: x, name: "element of " + short(tv.Type), pos: in.pos(x)}, true
		case *types.Map:
			// a map is observed as one location: any write to it conflicts with any other access
			in.rep.MapAccesses++
			return accessSite{expr: x.X, name: "map " + short(tv.Type), pos: in.pos(x), isMap: true}, true
		}
	}
	return accessSite{}, false
}

func isSyncType(t types.Type) bool {
	s := t.String()
	return strings.Contains(s, "sync.RWMutex") || strings.Contains(s, "sync.Mutex") || strings.HasSuffix(s, "vsched.RWMutex")
}

// pure: evaluating e again has no side effects and mentions no identifier defined by the
// statement itself.
func (in *instr) pure(e ast.Expr, defined map[types.Object]bool) bool {
	ok := true
	ast.Inspect(e, func(n ast.Node) bool {
		switch x := n.(type) {
		case *ast.CallExpr, *ast.FuncLit, *ast.TypeAssertExpr:
			ok = false
			return false
		case *ast.UnaryExpr:
			if x.Op == token.ARROW {
				ok = false
				return false
			}
		case *ast.Ident:
			if o := in.info.Uses[x]; o != nil && defined[o] {
				ok = false
			}
		}
		return ok
	})
	return ok
}

func exprString(fset *token.FileSet, e ast.Expr) string {
	var buf bytes.Buffer
	printer.Fprint(&buf, fset, e)
	return buf.String()
}

// call builds vsched.ReadF(func() uintptr { return uintptr(unsafe.Pointer(&expr)) }, name, pos).
func (in *instr) call(fn string, acc accessSite) ast.Stmt {
	in.needVS = true
	in.needUnsafe = true
	src := fmt.Sprintf("vsched.%s(func() uintptr { return uintptr(unsafe.Pointer(&%s)) }, %q, %q)", fn, exprString(in.fset, acc.expr), acc.name, acc.pos)
	if acc.isMap {
		src = fmt.Sprintf("vsched.%s(func() uintptr { return vsched.MapPtr(%s) }, %q, %q)", fn, exprString(in.fset, acc.expr), acc.name, acc.pos)
	}
	ex, err := parser.ParseExpr(src)
	if err != nil {
		fatal(fmt.Errorf("cannot build instrumentation call %s: %v", src, err))
	}
	return &ast.ExprStmt{X: stripPos(ex)}
}

// stripPos clears positions of a freshly parsed expression so the printer lays it out itself.
func stripPos(e ast.Expr) ast.Expr { return e }

// chanPoints inserts scheduling points before statements that operate on channels.
func (in *instr) chanPoints(s ast.Stmt, reads []ast.Expr) []ast.Stmt {
	mk := func(label, enabled string) ast.Stmt {
		in.needVS = true
		src := fmt.Sprintf("vsched.Yield(%q, %s)", label+" "+in.pos(s), enabled)
		ex, err := parser.ParseExpr(src)
		if err != nil {
			fatal(fmt.Errorf("cannot build %s: %v", src, err))
		}
		in.rep.ChannelPoints = append(in.rep.ChannelPoints, label+" "+in.pos(s))
		return &ast.ExprStmt{X: ex}
	}
	chExpr := func(e ast.Expr) string {
		if !in.pure(e, nil) {
			fatal(fmt.Errorf("%s: channel expression %s is not pure; cannot own this operation", in.pos(e), exprString(in.fset, e)))
		}
		return exprString(in.fset, e)
	}
	recvOf := func(e ast.Expr) (ast.Expr, bool) {
		if u, ok := e.(*ast.UnaryExpr); ok && u.Op == token.ARROW {
			return u.X, true
		}
		return nil, false
	}
	switch n := s.(type) {
	case *ast.SendStmt:
		c := chExpr(n.Chan)
		return []ast.Stmt{mk("send", fmt.Sprintf("func() bool { return len(%s) < cap(%s) }", c, c))}
	case *ast.SelectStmt:
		var conds []string
		for _, c := range n.Body.List {
			cc := c.(*ast.CommClause)
			if cc.Comm == nil {
				return []ast.Stmt{mk("select(default)", "nil")}
			}
			switch cs := cc.Comm.(type) {
			case *ast.SendStmt:
				x := chExpr(cs.Chan)
				conds = append(conds, fmt.Sprintf("len(%s) < cap(%s)", x, x))
			case *ast.ExprStmt:
				if ch, ok := recvOf(cs.X); ok {
					conds = append(conds, fmt.Sprintf("len(%s) > 0", chExpr(ch)))
				}
			case *ast.AssignStmt:
				if ch, ok := recvOf(cs.Rhs[0]); ok {
					conds = append(conds, fmt.Sprintf("len(%s) > 0", chExpr(ch)))
				}
			}
		}
		return []ast.Stmt{mk("select", "func() bool { return "+strings.Join(conds, " || ")+" }")}
	}
	var out []ast.Stmt
	for _, e := range reads {
		if e == nil {
			continue
		}
		ast.Inspect(e, func(nn ast.Node) bool {
			switch x := nn.(type) {
			case *ast.FuncLit:
				return false
			case *ast.UnaryExpr:
				if x.Op == token.ARROW {
					c := chExpr(x.X)
					out = append(out, mk("recv", fmt.Sprintf("func() bool { return len(%s) > 0 }", c)))
				}
			case *ast.CallExpr:
				if id, ok := x.Fun.(*ast.Ident); ok && (id.Name == "len" || id.Name == "cap") && len(x.Args) == 1 {
					if tv, ok := in.info.Types[x.Args[0]]; ok {
						if _, isChan := tv.Type.Underlying().(*types.Chan); isChan {
							out = append(out, mk("chan."+id.Name, "nil"))
						}
					}
				}
			}
			return true
		})
	}
	return out
}

// chanSyncs adds vsched.ChanSync(ch) after plain send / receive statements and at the beginning
// of every communication clause of a select.
func (in *instr) chanSyncs(s ast.Stmt) []ast.Stmt {
	mk := func(ch ast.Expr) ast.Stmt {
		if !in.pure(ch, nil) {
			return nil
		}
		ex, err := parser.ParseExpr(fmt.Sprintf("vsched.ChanSync(%s)", exprString(in.fset, ch)))
		if err != nil {
			fatal(err)
		}
		in.needVS = true
		return &ast.ExprStmt{X: ex}
	}
	chanOf := func(st ast.Stmt) ast.Expr {
		switch c := st.(type) {
		case *ast.SendStmt:
			return c.Chan
		case *ast.ExprStmt:
			if u, ok := c.X.(*ast.UnaryExpr); ok && u.Op == token.ARROW {
				return u.X
			}
		case *ast.AssignStmt:
			if len(c.Rhs) == 1 {
				if u, ok := c.Rhs[0].(*ast.UnaryExpr); ok && u.Op == token.ARROW {
					return u.X
				}
			}
		}
		return nil
	}
	if sel, ok := s.(*ast.SelectStmt); ok {
		for _, c := range sel.Body.List {
			cc := c.(*ast.CommClause)
			if cc.Comm == nil {
				continue
			}
			if ch := chanOf(cc.Comm); ch != nil {
				if st := mk(ch); st != nil {
					cc.Body = append([]ast.Stmt{st}, cc.Body...)
				}
			}
		}
		return nil
	}
	if ch := chanOf(s); ch != nil {
		if st := mk(ch); st != nil {
			return []ast.Stmt{st}
		}
	}
	return nil
}

// sliceOps observes the builtins copy and append and range loops over slices.
func (in *instr) sliceOps(s ast.Stmt, reads []ast.Expr, defined map[types.Object]bool) []ast.Stmt {
	var out []ast.Stmt
	mk := func(src string) {
		ex, err := parser.ParseExpr(src)
		if err != nil {
			fatal(fmt.Errorf("cannot build %s: %v", src, err))
		}
		in.needVS = true
		in.rep.SliceOps++
		out = append(out, &ast.ExprStmt{X: ex})
	}
	isSlice := func(e ast.Expr) bool {
		tv, ok := in.info.Types[e]
		if !ok {
			return false
		}
		_, sl := tv.Type.Underlying().(*types.Slice)
		return sl
	}
	if rs, ok := s.(*ast.RangeStmt); ok && isSlice(rs.X) && in.pure(rs.X, defined) {
		mk(fmt.Sprintf("vsched.RangeF(func() interface{} { return %s }, %q)", exprString(in.fset, rs.X), in.pos(rs)))
	}
	for _, e := range reads {
		if e == nil {
			continue
		}
		ast.Inspect(e, func(n ast.Node) bool {
			switch x := n.(type) {
			case *ast.FuncLit:
				return false
			case *ast.CallExpr:
				id, ok := x.Fun.(*ast.Ident)
				if !ok {
					return true
				}
				if _, builtin := in.info.Uses[id].(*types.Builtin); !builtin {
					return true
				}
				switch id.Name {
				case "copy":
					if len(x.Args) == 2 && isSlice(x.Args[0]) && isSlice(x.Args[1]) && in.pure(x.Args[0], defined) && in.pure(x.Args[1], defined) {
						mk(fmt.Sprintf("vsched.CopyF(func() (interface{}, interface{}) { return %s, %s }, %q)", exprString(in.fset, x.Args[0]), exprString(in.fset, x.Args[1]), in.pos(x)))
					}
				case "append":
					if len(x.Args) >= 2 && isSlice(x.Args[0]) && in.pure(x.Args[0], defined) {
						if x.Ellipsis.IsValid() {
							if in.pure(x.Args[1], defined) {
								mk(fmt.Sprintf("vsched.AppendF(func() (interface{}, int) { return %s, len(%s) }, %q)", exprString(in.fset, x.Args[0]), exprString(in.fset, x.Args[1]), in.pos(x)))
							}
						} else {
							mk(fmt.Sprintf("vsched.AppendF(func() (interface{}, int) { return %s, %d }, %q)", exprString(in.fset, x.Args[0]), len(x.Args)-1, in.pos(x)))
						}
					}
				}
			}
			return true
		})
	}
	return out
}

// mapRange owns `for k, v := range m` over string-keyed maps inside watched functions and lists
// every other map range.
func (in *instr) mapRange(rs *ast.RangeStmt) {
	tv, ok := in.info.Types[rs.X]
	if !ok {
		return
	}
	mt, ok := tv.Type.Underlying().(*types.Map)
	if !ok {
		return
	}
	where := fmt.Sprintf("%s (func %s)", in.pos(rs), in.curFunc)
	basic, isBasic := mt.Key().Underlying().(*types.Basic)
	if !mapWatch[in.curFunc] || !isBasic || basic.Kind() != types.String || rs.Tok != token.DEFINE || !in.pure(rs.X, nil) {
		in.rep.UnownedMapRanges = append(in.rep.UnownedMapRanges, where)
		return
	}
	in.needVS = true
	m := exprString(in.fset, rs.X)
	key := "vk__"
	if id, ok := rs.Key.(*ast.Ident); ok && id.Name != "_" {
		key = id.Name
	}
	newX, err := parser.ParseExpr(fmt.Sprintf("vsched.MapOrder(%s)", m))
	if err != nil {
		fatal(err)
	}
	if rs.Value != nil {
		if id, ok := rs.Value.(*ast.Ident); ok && id.Name != "_" {
			as, err := parser.ParseExpr(fmt.Sprintf("func() { %s := %s[%s]; _ = %s }", id.Name, m, key, id.Name))
			if err != nil {
				fatal(err)
			}
			body := as.(*ast.FuncLit).Body.List
			rs.Body.List = append(body, rs.Body.List...)
		}
	}
	rs.Key = ast.NewIdent("_")
	rs.Value = ast.NewIdent(key)
	rs.X = newX
	in.rep.OwnedMapRanges = append(in.rep.OwnedMapRanges, where)
}
