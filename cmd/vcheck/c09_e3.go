//go:build verif

package main

import (
	"encoding/json"
	"fmt"

	"github.com/emicklei/go-restful/v3/zverif/vsched"

	"verif/harness/h"
)

func init() {
	e3Scenarios["C09"] = c09Scenarios
	e3Part["C09"] = func(run *h.Run) { e3Merge(run) }
	e3ReplayHook = func(prop string, detail json.RawMessage) error { return e3Replay(prop)(detail) }
}

// two (or three) concurrent preflights to different URLs through one filter value
func c09Scenarios(tier string) []e3Scenario {
	var out []e3Scenario
	sets := [][]h.Req{
		{preflight("u1", corsE1, "PUT", "X-A"), preflight("u2", corsE1, "DELETE", "X-A")},
		{preflight("u1", corsE1, "PUT", "X-A"), preflight("u2", corsE1, "PUT", "X-A")},
		{preflight("u1", corsE1, "GET", "-"), {Method: "GET", Segs: []string{"u1"}, Hdr: [][2]string{{"Origin", corsE1}}}},
	}
	if tier == "thorough" {
		sets = append(sets, []h.Req{preflight("u1", corsE1, "PUT", "X-A"), preflight("u2", corsE1, "DELETE", "X-A"), preflight("nope", corsE1, "GET", "X-A")})
	}
	for si, reqs := range sets {
		for _, cfg := range []corsCfg{{Domains: []string{corsE1}, Headers: []string{"X-A"}}, {Domains: []string{corsE1}, Headers: []string{"X-A"}, JSR: true}, {Domains: []string{corsE1}, Headers: []string{"X-A"}, Service: true}} {
			reqs, cfg := reqs, cfg
			bound := 3
			if tier == "thorough" {
				bound = 5
			}
			fresh := make([]string, len(reqs))
			for i, q := range reqs {
				fresh[i] = corsBuild(cfg, true).do(q).key()
			}
			out = append(out, e3Scenario{Name: fmt.Sprintf("preflights-%d/jsr=%v/service=%v", si, cfg.JSR, cfg.Service), Bound: bound, New: func() *e3Inst {
				w := corsBuild(cfg, true)
				recs := make([]*h.Rec, len(reqs))
				inst := &e3Inst{}
				for i, q := range reqs {
					i, hr := i, q.HTTP()
					recs[i] = h.NewRec()
					inst.Bodies = append(inst.Bodies, vsched.Body{Name: "preflight", Run: func() {
						vsched.Pt("request.start")
						w.c.Dispatch(recs[i], hr)
					}})
				}
				keyOf := func(i int) string {
					r := corsResp{recs[i].Code, recs[i].Result().Clone(), recs[i].Buf.String(), nil}
					return r.key()
				}
				inst.Check = func(x *vsched.Execution) []e3Issue {
					var out []e3Issue
					for i := range reqs {
						// the event log is shared between the concurrent requests; compare status/headers/body
						want := fresh[i]
						got := keyOf(i)
						if stripLog(got) != stripLog(want) {
							out = append(out, e3Issue{"oracle:preflight", fmt.Sprintf("request %d answered %s, sequentially on a fresh filter %s", i, got, want)})
						}
					}
					return out
				}
				inst.Outcome = func() string {
					s := ""
					for i := range reqs {
						s += stripLog(keyOf(i)) + " ; "
					}
					return s
				}
				return inst
			}})
		}
	}
	return out
}

// stripLog removes the event-log part of a corsResp key (status "body" [events] headers...).
func stripLog(k string) string {
	i, j := indexByte(k, '['), indexByte(k, ']')
	if i < 0 || j < i {
		return k
	}
	return k[:i] + k[j+1:]
}

func indexByte(s string, c byte) int {
	for i := 0; i < len(s); i++ {
		if s[i] == c {
			return i
		}
	}
	return -1
}
