//go:build verif

package main

import (
	"fmt"
	"net/http"

	"github.com/emicklei/go-restful/v3/zverif/vsched"

	"verif/harness/h"
)

func init() {
	e3Scenarios["C19"] = c19Scenarios
	e3Part["C19"] = func(run *h.Run) { e3Merge(run) }
}

func c19Scenarios(tier string) []e3Scenario {
	var out []e3Scenario
	q := c19Q()
	cfgs := []c19Cfg{{Kind: "plain"}, {Kind: "filters"}, {Kind: "cors"}, {Kind: "options"}, {Kind: "encoding"}, {Kind: "filters", JSR: true}, {Kind: "plain", JSR: true}}
	if tier == "thorough" {
		cfgs = c19Cfgs(tier)
	}
	hwfIdx := -1
	for i := range q {
		if q[i].Segs[0] == "hwf" {
			hwfIdx = i
		}
	}
	var sets [][]int
	for i := range q {
		for j := i; j < len(q); j++ {
			if tier != "thorough" && (i == 6 || j == 6 || i == 3 || j == 3) && i != j {
				continue // quick: the nested-dispatch and 404 requests only against themselves
			}
			if tier != "thorough" && j >= 14 && i != j && i != 0 && i != 12 && !(i == 18 && j == 19) && !(i == 20 && j == 21) && !(i == 16 && j == 23) && !(i == 25 && j == 26) {
				continue // quick: the XML entity, regex, custom-verb, tail-wildcard and panicking requests against themselves, the first GET and the negotiated entity; the two panicking requests, the two tenant requests and the two custom-verb requests against each other
			}
			sets = append(sets, []int{i, j})
		}
	}
	if tier == "thorough" {
		for _, t := range [][]int{{0, 1, 4}, {0, 5, 7}, {2, 6, 1}, {4, 4, 3}, {0, 1, 7}} {
			sets = append(sets, t)
		}
	}
	for _, cfg := range cfgs {
		for _, set := range sets {
			for _, serve := range []bool{false, true} {
				hwf := set[0] == hwfIdx || set[len(set)-1] == hwfIdx
				if serve && tier != "thorough" && cfg.Kind != "encoding" && !hwf {
					continue // quick: ServeHTTP entry only where it installs the encoder itself or reaches the plain handler
				}
				if !serve && hwf && set[0] == set[len(set)-1] {
					continue // Dispatch never reaches a plain handler
				}
				cfg, set, serve := cfg, set, serve
				bound := 2
				if tier == "thorough" && len(set) == 2 {
					bound = 3
				}
				fresh := make([]string, len(set))
				for k, i := range set {
					fresh[k] = c19Do(c19Build(cfg.ref()), q[i], serve)
				}
				out = append(out, e3Scenario{Name: fmt.Sprintf("%s/jsr=%v/serve=%v/%v", cfg.Kind, cfg.JSR, serve, set), Bound: bound, New: func() *e3Inst {
					c := c19Build(cfg)
					recs := make([]*h.Rec, len(set))
					inst := &e3Inst{}
					for k, i := range set {
						k, hr := k, q[i].HTTP()
						recs[k] = h.NewRec()
						var w http.ResponseWriter = recs[k]
						if q[i].Segs[len(q[i].Segs)-2] == "boom" {
							// the recover handler's writes to the connection are scheduling points
							w = &ptRec{Rec: recs[k]}
						}
						inst.Bodies = append(inst.Bodies, vsched.Body{Name: fmt.Sprint("q", i), Run: func() {
							if serve {
								c.ServeHTTP(w, hr)
							} else {
								c.Dispatch(w, hr)
							}
						}})
					}
					led := c19Ledger
					inst.Check = func(x *vsched.Execution) []e3Issue {
						var out []e3Issue
						if x.Deadlock {
							return nil
						}
						if cfg.Kind == "encoding" && led != nil {
							for _, m := range led.report(true) {
								out = append(out, e3Issue{"oracle:ledger", m})
							}
						}
						for k := range set {
							if got := c19Key(recs[k]); got != fresh[k] {
								out = append(out, e3Issue{"oracle:interference", fmt.Sprintf("%+v: %v served concurrently is answered %s ; alone on a fresh container %s", cfg, q[set[k]], got, fresh[k])})
							}
						}
						return out
					}
					inst.Outcome = func() string {
						s := ""
						for k := range set {
							s += fmt.Sprint(recs[k].Code, "/", recs[k].Buf.Len(), " ")
						}
						return s
					}
					return inst
				}})
			}
		}
	}
	return out
}
