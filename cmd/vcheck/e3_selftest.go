//go:build verif

package main

import (
	"fmt"
	"os"
	"time"
	"unsafe"

	"github.com/emicklei/go-restful/v3/zverif/vsched"
)

// e3selftest: the explorer, the shims and the detector on four textbook programs whose verdict
// is known (run by bin/setup). An engine that cannot find these bugs - or finds bugs in the
// correct variants - must not be trusted.
func init() {
	subcommands["e3selftest"] = func(args []string) {
		fail := 0
		expect := func(name string, sc e3Scenario, wantKind string) {
			res := e3Explore(sc, time.Now().Add(60*time.Second))
			got := ""
			if len(res.Violations) > 0 {
				got = res.Violations[0].Issues[0].Kind
			}
			ok := got == wantKind && res.Broken == ""
			fmt.Printf("selftest %-34s want=%-9q got=%-9q schedules=%-5d bound_completed=%d %v\n", name, wantKind, got, res.Schedules, res.BoundCompleted, map[bool]string{true: "ok", false: "FAILED " + res.Broken}[ok])
			if !ok {
				fail++
			}
		}
		// 1. unsynchronised counter: race; with a mutex: none
		counter := func(locked bool) e3Scenario {
			return e3Scenario{Name: "counter", Bound: 2, New: func() *e3Inst {
				var mu vsched.Mutex
				n := new(int)
				inc := func() {
					if locked {
						mu.Lock()
						defer mu.Unlock()
					}
					vsched.Read(uintptr(unsafe.Pointer(n)), "n", "read")
					v := *n
					vsched.Pt("between")
					*n = v + 1
					vsched.Write(uintptr(unsafe.Pointer(n)), "n", "write")
				}
				return &e3Inst{Bodies: []vsched.Body{{Name: "a", Run: inc}, {Name: "b", Run: inc}},
					Check: func(x *vsched.Execution) []e3Issue {
						if !x.Deadlock && *n != 2 {
							return []e3Issue{{"oracle:lost-update", fmt.Sprint("n=", *n)}}
						}
						return nil
					}, Outcome: func() string { return fmt.Sprint(*n) }}
			}}
		}
		expect("unsynchronised counter", counter(false), "race")
		expect("counter under a mutex", counter(true), "")
		// 2. lock-order inversion: deadlock needs one preemption
		expect("lock-order inversion", e3Scenario{Name: "inversion", Bound: 2, NoRaces: true, New: func() *e3Inst {
			var a, b vsched.Mutex
			return &e3Inst{Bodies: []vsched.Body{
				{Name: "ab", Run: func() { a.Lock(); b.Lock(); b.Unlock(); a.Unlock() }},
				{Name: "ba", Run: func() { b.Lock(); a.Lock(); a.Unlock(); b.Unlock() }}},
				Check: func(*vsched.Execution) []e3Issue { return nil }}
		}}, "deadlock")
		// 3. writer preference: a reader that re-enters RLock while a writer waits deadlocks
		expect("recursive RLock vs waiting writer", e3Scenario{Name: "rw", Bound: 2, NoRaces: true, New: func() *e3Inst {
			var m vsched.RWMutex
			return &e3Inst{Bodies: []vsched.Body{
				{Name: "reader", Run: func() { m.RLock(); vsched.Pt("inside"); m.RLock(); m.RUnlock(); m.RUnlock() }},
				{Name: "writer", Run: func() { m.Lock(); m.Unlock() }}},
				Check: func(*vsched.Execution) []e3Issue { return nil }}
		}}, "deadlock")
		// 4. pool hand-out is an owned choice: both "reused" and "new" must be observed
		var outcomes map[string]bool
		res := e3Explore(e3Scenario{Name: "pool", Bound: 1, NoRaces: true, New: func() *e3Inst {
			p := &vsched.Pool{New: func() interface{} { return new(int) }}
			var first, second interface{}
			return &e3Inst{Bodies: []vsched.Body{{Name: "t", Run: func() {
				first = p.Get()
				p.Put(first)
				second = p.Get()
			}}}, Check: func(*vsched.Execution) []e3Issue { return nil }, Outcome: func() string { return fmt.Sprint(first == second) }}
		}}, time.Now().Add(30*time.Second))
		outcomes = map[string]bool{}
		for _, o := range res.Outcomes {
			outcomes[o] = true
		}
		ok := outcomes["true"] && outcomes["false"]
		fmt.Printf("selftest %-34s outcomes=%v %v\n", "pool hand-out enumerated", res.Outcomes, map[bool]string{true: "ok", false: "FAILED"}[ok])
		if !ok {
			fail++
		}
		if fail > 0 {
			os.Exit(1)
		}
	}
}
