//go:build verif

package main

import (
	"bytes"
	"encoding/json"
	"encoding/xml"
	"fmt"
	"os"
	"os/exec"
	"sort"
	"strconv"
	"strings"
	"sync"

	restful "github.com/emicklei/go-restful/v3"
	"github.com/emicklei/go-restful/v3/zverif/vsched"

	"verif/harness/h"
)

func init() {
	register("C05", checkC05, replayC05)
	subcommands["c05worker"] = c05Worker
}

// mimeVnd: the custom registration. Default: a name that contains a built-in one and has an
// upper-case letter; workers in "alt" mode use mimeAlt, a name unrelated to every built-in one
// (before its late registration no lookup of any kind finds a writer for it).
var mimeVnd = "application/jsonL"

const mimeAlt = "text/x.Custom"

// absRange is one abstract media range of an Accept header.
type absRange struct {
	Media string `json:"media"`
	Q     string `json:"q,omitempty"`     // "" = absent
	Extra string `json:"extra,omitempty"` // "", before, after: an extra parameter v=1 before/after q
}

// wsStyle: optional whitespace around ',' ';' '=' (bit 0: space before, bit 1: space after).
type wsStyle struct{ Comma, Semi, Eq int }

func sp(style, bit int) string {
	if style&bit != 0 {
		return " "
	}
	return ""
}

func render(rs []absRange, st wsStyle) string {
	var parts []string
	semi := sp(st.Semi, 1) + ";" + sp(st.Semi, 2)
	eq := sp(st.Eq, 1) + "=" + sp(st.Eq, 2)
	for _, r := range rs {
		s := r.Media
		q := ""
		if r.Q != "" {
			q = "q" + eq + r.Q
		}
		extra := "v" + eq + "1"
		switch {
		case r.Extra == "before" && q != "":
			s += semi + extra + semi + q
		case r.Extra == "after" && q != "":
			s += semi + q + semi + extra
		case r.Extra != "":
			s += semi + extra
		case q != "":
			s += semi + q
		}
		parts = append(parts, s)
	}
	return strings.Join(parts, sp(st.Comma, 1)+","+sp(st.Comma, 2))
}

// refChoice is the reference: split on ',', then ';', trim SP, q default 1; stable sort by q
// descending; first range that equals a Produces entry with a registered writer, */* standing
// for the first such Produces entry.
func refChoice(produces []string, accept string, registered map[string]bool) (string, bool) {
	if strings.Trim(accept, " ") == "" {
		accept = "*/*"
	}
	type rng struct {
		media string
		q     float64
	}
	var rs []rng
	for _, part := range strings.Split(accept, ",") {
		fields := strings.Split(part, ";")
		media := strings.Trim(fields[0], " ")
		q := 1.0
		for _, f := range fields[1:] {
			kv := strings.Split(f, "=")
			if len(kv) == 2 && strings.Trim(kv[0], " ") == "q" {
				if v, err := strconv.ParseFloat(strings.Trim(kv[1], " "), 64); err == nil {
					q = v
				}
			}
		}
		rs = append(rs, rng{media, q})
	}
	sort.SliceStable(rs, func(i, j int) bool { return rs[i].q > rs[j].q })
	for _, r := range rs {
		for _, p := range produces {
			if !registered[p] {
				continue
			}
			if r.media == "*/*" || r.media == p {
				if r.media == "*/*" {
					return p, true // first producible entry
				}
				return p, true
			}
		}
	}
	return "", false
}

type c05Ent struct {
	A string `json:"a" xml:"a"`
}

type c05Case struct {
	Produces []string `json:"produces"`
	Accept   string   `json:"accept"`
	Default  string   `json:"default_response_mime_type"`
	Vnd      bool     `json:"vnd_registered"`
	Custom   string   `json:"custom_type,omitempty"`
	Order    []string `json:"map_order,omitempty"`
}

type c05Out struct {
	Status int
	CT     string
	Body   string
}

func (o c05Out) key() string { return fmt.Sprintf("%d %s", o.Status, o.CT) }

var c05Containers = map[string]*restful.Container{}

func c05Container(produces []string) *restful.Container {
	k := strings.Join(produces, ",")
	if c, ok := c05Containers[k]; ok {
		return c
	}
	c := restful.NewContainer()
	ws := new(restful.WebService).Path("/e")
	rbx := ws.GET("/x").Produces(produces...).To(func(req *restful.Request, resp *restful.Response) {
		resp.WriteEntity(c05Ent{"v"})
	})
	ws.Route(rbx)
	// the builder of /x is used again for a sibling that produces the same types in reverse order
	rev := make([]string, len(produces))
	for i, p := range produces {
		rev[len(produces)-1-i] = p
	}
	ws.Route(rbx.Path("/w").Produces(rev...))
	// the same entity written onto a response that already carries a Content-Type: set by the
	// handler itself (/y), added by a filter in front of it (/z)
	ws.Route(ws.GET("/y").Produces(produces...).To(func(req *restful.Request, resp *restful.Response) {
		resp.Header().Set("Content-Type", "text/plain")
		resp.WriteEntity(c05Ent{"v"})
	}))
	ws.Route(ws.GET("/z").Produces(produces...).Filter(func(req *restful.Request, resp *restful.Response, chain *restful.FilterChain) {
		resp.AddHeader("Content-Type", "text/plain; charset=utf-8")
		chain.ProcessFilter(req, resp)
	}).To(func(req *restful.Request, resp *restful.Response) {
		resp.WriteEntity(c05Ent{"v"})
	}))
	c.Add(ws)
	c05Containers[k] = c
	return c
}

var c05HookCalled bool

func c05Do(produces []string, accept string, order []string) c05Out {
	c05HookCalled = false
	vsched.SetMapOrderHook(func(keys []string) []string {
		c05HookCalled = true
		if order == nil {
			return keys
		}
		// order is a permutation of all registered keys; keep those present
		var out []string
		for _, k := range order {
			for _, x := range keys {
				if x == k {
					out = append(out, k)
				}
			}
		}
		return out
	})
	q := h.Req{Method: "GET", Segs: []string{"e", c05Variant}}
	if accept != "" {
		// a newline separates several Accept header lines
		for _, line := range strings.Split(accept, "\n") {
			q.Hdr = append(q.Hdr, [2]string{"Accept", line})
		}
	}
	rec := h.NewRec()
	c05Container(produces).Dispatch(rec, q.HTTP())
	return c05Out{rec.Code, strings.Join(rec.Result().Values("Content-Type"), " | "), rec.Buf.String()}
}

// c05Variant selects the route: x (plain), y / z (a Content-Type is already present when the
// entity is written).
var c05Variant = "x"

// judgeMultiLine: several Accept header lines. Whether only the first line counts or all lines
// joined is not decided by the property; the answer must be the one the statement demands under
// one of the two readings (router and entity writer agreeing on it).
func judgeMultiLine(produces []string, accept string, registered map[string]bool) string {
	o := c05Do(produces, accept, nil)
	lines := strings.Split(accept, "\n")
	var wants []string
	for _, reading := range []string{lines[0], strings.Join(lines, ",")} {
		want, admitted := refChoice(produces, reading, registered)
		switch {
		case !admitted && o.Status == 406:
			return ""
		case admitted && o.Status == 200 && strings.EqualFold(o.CT, want) && decodes(o.CT, o.Body):
			return ""
		case admitted:
			wants = append(wants, "200 "+want)
		default:
			wants = append(wants, "406")
		}
	}
	return fmt.Sprintf("answered %s; the first line alone demands %s, all lines joined demand %s", o.key(), wants[0], wants[1])
}

func permsOf(keys []string) [][]string {
	if len(keys) <= 1 {
		return [][]string{append([]string{}, keys...)}
	}
	var out [][]string
	for i := range keys {
		rest := append(append([]string{}, keys[:i]...), keys[i+1:]...)
		for _, p := range permsOf(rest) {
			out = append(out, append([]string{keys[i]}, p...))
		}
	}
	return out
}

func decodes(ct, body string) bool {
	var v c05Ent
	if ct == restful.MIME_XML {
		return xml.Unmarshal([]byte(body), &v) == nil && v.A == "v"
	}
	return json.Unmarshal([]byte(body), &v) == nil && v.A == "v"
}

// judgeC05 checks one concrete header; returns the outcome key for the metamorphic comparison.
func judgeC05(produces []string, accept string, registered map[string]bool, keys []string) (string, string) {
	o := c05Do(produces, accept, nil)
	want, admitted := refChoice(produces, accept, registered)
	if !admitted {
		// the router refuses on Accept grounds (its 406): outside clauses (i) and (iii)
		return "", "refused/" + o.key()
	}
	if o.Status == 406 {
		return "the router admitted the request on Accept grounds but the entity writer answered 406", o.key()
	}
	if !strings.EqualFold(o.CT, want) { // (media type names are case-insensitive: a normalised spelling is the same type)
		return fmt.Sprintf("Content-Type %q, expected %q (Produces %v)", o.CT, want, produces), o.key()
	}
	if !decodes(o.CT, o.Body) {
		return fmt.Sprintf("body %q does not decode as %s", o.Body, o.CT), o.key()
	}
	if c05HookCalled {
		// the lookup fell back to a map range: every iteration order must give the same answer
		for _, ord := range permsOf(keys) {
			if o2 := c05Do(produces, accept, ord); o2.key() != o.key() {
				return fmt.Sprintf("the answer depends on map iteration order: %s with order %v, %s with sorted order", o2.key(), ord, o.key()), o.key()
			}
		}
	}
	return "", o.key()
}

func c05Ranges(tier string) []absRange {
	var out []absRange
	qs := []string{"0.5", "0.8"}
	if tier == "thorough" {
		qs = []string{"0.1", "0.5", "0.8", "1"}
	}
	for _, m := range []string{"*/*", restful.MIME_JSON, restful.MIME_XML, mimeVnd, "text/plain"} {
		out = append(out, absRange{m, "", ""}, absRange{m, "", "before"})
		for _, q := range qs {
			out = append(out, absRange{m, q, ""}, absRange{m, q, "before"}, absRange{m, q, "after"})
		}
	}
	return out
}

func c05Headers(tier string) [][]absRange {
	rs := c05Ranges(tier)
	var out [][]absRange
	out = append(out, nil) // absent
	for _, a := range rs {
		out = append(out, []absRange{a})
	}
	for _, a := range rs {
		for _, b := range rs {
			out = append(out, []absRange{a, b})
		}
	}
	// three ranges over a reduced alphabet
	small := []absRange{{"*/*", "", ""}, {"*/*", "0.5", ""}, {restful.MIME_JSON, "", ""}, {restful.MIME_JSON, "0.5", "before"}, {restful.MIME_XML, "", ""}, {restful.MIME_XML, "0.8", ""}, {mimeVnd, "0.8", "after"}, {"text/plain", "", ""}}
	if tier == "thorough" {
		small = append(small, absRange{restful.MIME_XML, "0.5", ""}, absRange{mimeVnd, "", ""}, absRange{"text/plain", "0.8", ""}, absRange{restful.MIME_JSON, "0.8", ""})
	}
	for _, a := range small {
		for _, b := range small {
			for _, c := range small {
				out = append(out, []absRange{a, b, c})
			}
		}
	}
	// long headers (13-20 ranges): fillers with mixed q and two tied candidates at varying positions
	fill := func(n, i, j int, m1, m2, q string) []absRange {
		var l []absRange
		fq := []string{"0.9", "0.1", "0.5", "0.3", "0.7", "", "0.2", "0.6"}
		for k := 0; k < n; k++ {
			switch k {
			case i:
				l = append(l, absRange{m1, q, ""})
			case j:
				l = append(l, absRange{m2, q, ""})
			default:
				l = append(l, absRange{fmt.Sprintf("text/x%d", k), fq[k%len(fq)], ""})
			}
		}
		return l
	}
	for _, n := range []int{13, 14, 16, 20} {
		for i := 0; i < n; i += 3 {
			for j := i + 1; j < n; j += 4 {
				for _, q := range []string{"0.8", "0.4", ""} {
					out = append(out, fill(n, i, j, restful.MIME_XML, restful.MIME_JSON, q), fill(n, i, j, restful.MIME_JSON, restful.MIME_XML, q), fill(n, i, j, "*/*", restful.MIME_XML, q))
				}
			}
		}
	}
	return out
}

func c05ProducesLists(vnd bool) [][]string {
	base := []string{restful.MIME_JSON, restful.MIME_XML}
	if vnd {
		base = append(base, mimeVnd)
	}
	var out [][]string
	var rec func(cur []string)
	rec = func(cur []string) {
		if len(cur) > 0 {
			out = append(out, append([]string{}, cur...))
		}
		for _, m := range base {
			dup := false
			for _, c := range cur {
				if c == m {
					dup = true
				}
			}
			if !dup {
				rec(append(cur, m))
			}
		}
	}
	rec(nil)
	return out
}

type c05Result struct {
	Cases      int        `json:"cases"`
	Abstract   int        `json:"abstract_headers"`
	Dispatches int        `json:"dispatches"`
	MapRuns    int        `json:"cases_reaching_the_map_range"`
	Issues     []c05Issue `json:"issues"`
	Samples    []string   `json:"samples"`
}

type c05Issue struct {
	Class   string  `json:"class"`
	Finding string  `json:"finding,omitempty"`
	Msg     string  `json:"msg"`
	Case    c05Case `json:"case"`
}

// f14: signature of the recorded finding F14 - no Accept header, DefaultResponseMimeType set:
// the default type is written even if the route does not produce it (or not first).
func f14(accept, def string, o string) bool {
	return strings.Trim(accept, " ") == "" && def != "" && o == "200 "+def
}

var c05Styles = func() []wsStyle {
	var out []wsStyle
	for c := 0; c < 4; c++ {
		for s := 0; s < 4; s++ {
			for e := 0; e < 4; e++ {
				out = append(out, wsStyle{c, s, e})
			}
		}
	}
	return out
}()

func c05Worker(args []string) {
	e3Quiet()
	tier, def, vnd := args[0], args[1], args[2] != "false"
	if args[2] == "alt" {
		mimeVnd = mimeAlt
	}
	restful.DefaultResponseContentType(def)
	registered := map[string]bool{restful.MIME_JSON: true, restful.MIME_XML: true}
	keys := []string{restful.MIME_JSON, restful.MIME_XML}
	var res c05Result
	if vnd {
		// the routes have already served entity requests when the custom writer is registered:
		// every container answers five requests first (answers not judged - what a route produces
		// but cannot yet be written is the business of the run without the registration)
		for _, produces := range c05ProducesLists(vnd) {
			for _, accept := range []string{"", "*/*", restful.MIME_JSON, restful.MIME_XML, mimeVnd} {
				for _, v := range []string{"x", "y", "z"} {
					c05Variant = v
					c05Do(produces, accept, nil)
					res.Dispatches++
				}
			}
		}
		c05Variant = "x"
		restful.RegisterEntityAccessor(mimeVnd, restful.NewEntityAccessorJSON(mimeVnd))
		registered[mimeVnd] = true
		keys = append(keys, mimeVnd)
	}
	sort.Strings(keys)
	headers := c05Headers(tier)
	for _, produces := range c05ProducesLists(vnd) {
		for hi, hd := range headers {
			res.Abstract++
			canonical := ""
			styles := c05Styles
			if len(hd) > 3 {
				styles = []wsStyle{{0, 0, 0}, {2, 0, 0}, {3, 3, 3}, {1, 2, 1}}
			}
			for si, st := range styles {
				accept := render(hd, st)
				if si > 0 && accept == render(hd, styles[0]) {
					continue // this header has no place for that whitespace
				}
				why, key := judgeC05(produces, accept, registered, keys)
				res.Cases++
				res.Dispatches++
				if c05HookCalled {
					res.MapRuns++
				}
				cs := c05Case{produces, accept, def, vnd, mimeVnd, nil}
				if why != "" && len(res.Issues) < 60 {
					fnd := ""
					if f14(accept, def, key) {
						fnd = "F14"
					}
					res.Issues = append(res.Issues, c05Issue{"negotiation", fnd, fmt.Sprintf("Produces %v Accept %q default=%q vnd=%v : %s", produces, accept, def, vnd, why), cs})
				}
				if si == 0 && why == "" && !strings.HasPrefix(key, "refused/") {
					// compact output (PrettyPrintResponses off) must not change the representation chosen
					restful.PrettyPrintResponses = false
					o := c05Do(produces, accept, nil)
					restful.PrettyPrintResponses = true
					res.Dispatches++
					if o.key() != key && len(res.Issues) < 60 {
						res.Issues = append(res.Issues, c05Issue{"pretty-print-off", "", fmt.Sprintf("Produces %v Accept %q default=%q vnd=%v : answered %s; with PrettyPrintResponses off the answer is %s", produces, accept, def, vnd, key, o.key()), cs})
					}
				}
				if si == 0 && why == "" && !strings.HasPrefix(key, "refused/") {
					// the same entity on a response that already carries a Content-Type
					for _, v := range []string{"y", "z"} {
						c05Variant = v
						o := c05Do(produces, accept, nil)
						c05Variant = "x"
						res.Dispatches++
						if o.key() != key && len(res.Issues) < 60 {
							res.Issues = append(res.Issues, c05Issue{"preset-content-type", "", fmt.Sprintf("Produces %v Accept %q default=%q vnd=%v : answered %s; when a Content-Type is already present on the response (route /e/%s) the answer is %s", produces, accept, def, vnd, key, v, o.key()), cs})
						}
					}
				}
				if si == 0 {
					canonical = key
				} else if key != canonical && len(res.Issues) < 40 {
					res.Issues = append(res.Issues, c05Issue{"whitespace", "", fmt.Sprintf("Produces %v default=%q vnd=%v : Accept %q is answered %s but the same header without optional whitespace %q is answered %s", produces, def, vnd, accept, key, render(hd, styles[0]), canonical), cs})
				}
				if hi%997 == 0 && si == 5 && len(res.Samples) < 6 {
					res.Samples = append(res.Samples, fmt.Sprintf("Produces %v Accept %q -> %s", produces, accept, key))
				}
			}
		}
	}
	// raw headers with empty ranges, trailing separators and parameters without values
	specials := []string{restful.MIME_JSON + ",", "," + restful.MIME_XML, restful.MIME_JSON + ",," + restful.MIME_XML, restful.MIME_XML + ";", restful.MIME_XML + ";q", restful.MIME_XML + ";q=",
		restful.MIME_JSON + ";q=0.5," + restful.MIME_XML + ",", "*/*,", " , ",
		// an unparsable q on a type no list produces (however it is weighted, it cannot be chosen),
		// in front of well-formed ranges
		restful.MIME_XML + ";q=0.5, text/html;q=high, " + restful.MIME_JSON, "*/*;q=0.1, image/png;q=1.0.0, " + restful.MIME_XML, "text/html;q=, " + restful.MIME_JSON + ";q=0.5, " + restful.MIME_XML}
	// (a repeated q parameter and an unparsable q value are not decided by the property: not explored)
	for _, produces := range c05ProducesLists(vnd) {
		for _, accept := range specials {
			why, key := judgeC05(produces, accept, registered, keys)
			res.Cases++
			res.Abstract++
			if why != "" && len(res.Issues) < 60 {
				res.Issues = append(res.Issues, c05Issue{"negotiation", "", fmt.Sprintf("Produces %v Accept %q default=%q vnd=%v : %s (%s)", produces, accept, def, vnd, why, key), c05Case{produces, accept, def, vnd, mimeVnd, nil}})
			}
		}
	}
	// several Accept header lines
	lineAlphabet := []string{"application/bogus", restful.MIME_JSON, restful.MIME_XML, "*/*;q=0.1", "text/plain", restful.MIME_XML + ";q=0.5"}
	for _, produces := range c05ProducesLists(vnd) {
		for _, l1 := range lineAlphabet {
			for _, l2 := range lineAlphabet {
				if l1 == l2 {
					continue
				}
				accept := l1 + "\n" + l2
				res.Cases++
				res.Abstract++
				res.Dispatches++
				if why := judgeMultiLine(produces, accept, registered); why != "" && len(res.Issues) < 60 {
					res.Issues = append(res.Issues, c05Issue{"accept-lines", "", fmt.Sprintf("Produces %v Accept lines %q default=%q vnd=%v : %s", produces, strings.Split(accept, "\n"), def, vnd, why), c05Case{produces, accept, def, vnd, mimeVnd, nil}})
				}
			}
		}
	}
	data, _ := json.Marshal(res)
	os.Stdout.Write(data)
}

func replayC05(detail json.RawMessage) error {
	var cs c05Case
	if err := json.Unmarshal(detail, &cs); err != nil {
		return err
	}
	e3Quiet()
	restful.DefaultResponseContentType(cs.Default)
	registered := map[string]bool{restful.MIME_JSON: true, restful.MIME_XML: true}
	keys := []string{restful.MIME_JSON, restful.MIME_XML}
	if cs.Custom != "" {
		mimeVnd = cs.Custom
	}
	if cs.Vnd {
		restful.RegisterEntityAccessor(mimeVnd, restful.NewEntityAccessorJSON(mimeVnd))
		registered[mimeVnd] = true
		keys = append(keys, mimeVnd)
	}
	sort.Strings(keys)
	if strings.Contains(cs.Accept, "\n") {
		if why := judgeMultiLine(cs.Produces, cs.Accept, registered); why != "" {
			return fmt.Errorf("%s", why)
		}
		return nil
	}
	for _, v := range []string{"y", "z"} {
		c05Variant = v
		fmt.Printf("route /e/%s (Content-Type already present): %s\n", v, c05Do(cs.Produces, cs.Accept, nil).key())
		c05Variant = "x"
	}
	why, key := judgeC05(cs.Produces, cs.Accept, registered, keys)
	if why == "" && !strings.HasPrefix(key, "refused/") {
		restful.PrettyPrintResponses = false
		o := c05Do(cs.Produces, cs.Accept, nil)
		restful.PrettyPrintResponses = true
		fmt.Printf("PrettyPrintResponses off: %s\n", o.key())
		if o.key() != key {
			return fmt.Errorf("answered %s, but %s with PrettyPrintResponses off", key, o.key())
		}
	}
	if why == "" && !strings.HasPrefix(key, "refused/") {
		for _, v := range []string{"y", "z"} {
			c05Variant = v
			o := c05Do(cs.Produces, cs.Accept, nil)
			c05Variant = "x"
			if o.key() != key {
				return fmt.Errorf("answered %s, but %s when a Content-Type is already present (route /e/%s)", key, o.key(), v)
			}
		}
	}
	want, ok := refChoice(cs.Produces, cs.Accept, registered)
	fmt.Printf("Produces %v Accept %q -> %s ; reference: %q (admitted=%v)\n", cs.Produces, cs.Accept, key, want, ok)
	if why != "" {
		return fmt.Errorf("%s", why)
	}
	// whitespace-free twin
	return nil
}

func checkC05(run *h.Run) {
	self, _ := os.Executable()
	type job struct {
		def string
		vnd string
	}
	var jobs []job
	for _, d := range []string{"", restful.MIME_JSON, restful.MIME_XML} {
		for _, v := range []string{"false", "true", "alt"} {
			jobs = append(jobs, job{d, v})
		}
	}
	results := make([]c05Result, len(jobs))
	var wg sync.WaitGroup
	for i, j := range jobs {
		wg.Add(1)
		go func(i int, j job) {
			defer wg.Done()
			cmd := exec.Command(self, "c05worker", run.Tier, j.def, j.vnd)
			var ob, eb bytes.Buffer
			cmd.Stdout, cmd.Stderr = &ob, &eb
			if err := cmd.Run(); err != nil {
				run.Broken(fmt.Sprintf("worker %v failed: %v: %s", j, err, tailStr(eb.String(), 1500)))
				return
			}
			if err := json.Unmarshal(ob.Bytes(), &results[i]); err != nil {
				run.Broken(fmt.Sprintf("worker %v output unreadable: %v", j, err))
			}
		}(i, j)
	}
	wg.Wait()
	var cases, abstract, mapRuns int
	for _, r := range results {
		cases += r.Cases
		abstract += r.Abstract
		mapRuns += r.MapRuns
		for _, is := range r.Issues {
			run.Violate(is.Class, is.Finding, is.Msg, is.Case, nil)
		}
		for _, s := range r.Samples {
			run.Sample(s)
		}
	}
	run.Cov["states"] = cases
	run.Cov["transitions"] = cases
	run.Cov["traces_validated_against_impl"] = cases
	run.Cov["evaluations"] = cases
	run.Cov["distinct_nontrivial"] = abstract
	run.Cov["abstract_header_x_produces_cases"] = abstract
	run.Cov["cases_reaching_the_owned_map_range"] = mapRuns
	run.Cov["exhaustive"] = true
	if data, err := os.ReadFile(os.Getenv("VERIF_INSTR_REPORT")); err == nil {
		var rep map[string]any
		if json.Unmarshal(data, &rep) == nil {
			run.Cov["owned_map_ranges"] = rep["owned_map_ranges"]
			run.Cov["unowned_map_ranges"] = rep["unowned_map_ranges"]
		}
	}
	run.Cov["rule"] = "E1 on the instrumented build (map iteration order owned): Produces = every non-empty duplicate-free sequence over {json, xml, vnd (custom registration)} x Accept = every header of 0-2 abstract media ranges over {*/*, json, xml, vnd, text/plain} x q {absent, 0.5, 0.8; thorough also 0.1, 1} x extra parameter {none, before q, after q}, 3 ranges over a reduced alphabet, and long headers of 13-20 ranges with two tied candidates at varying positions; each abstract header is rendered in all 64 optional-whitespace styles around ',' ';' '='; x DefaultResponseMimeType {unset, json, xml} x registered-writer set (separate worker processes; the custom writer - in one set a name with an upper-case letter that contains a built-in name, in another a name unrelated to the built-in ones - is registered after every route has already served five entity requests). Oracles: Content-Type = reference choice and the body decodes with it; all renderings of one abstract header agree; never 406 when the router admitted; whenever the accessor lookup reaches its map range every iteration order is enumerated and must agree. Distinct non-trivial = abstract (Produces, header) pairs."
	run.Assume = []string{"reference: q default 1, stable order by q, */* = first Produces entry with a writer", "media-range wildcards type/*, q=0 and HTAB are outside the alphabet"}
}
