package main

import (
	"fmt"
	"sync/atomic"

	"verif/harness/h"
	rm "verif/harness/refmodel"
	"verif/harness/rs"
)

func init() { register("C14", checkC14, replayRouting(replayC14)) }

func hasTail(p *rm.Parsed) bool {
	for _, fr := range p.Full {
		for _, toks := range fr {
			for _, t := range toks {
				if t.Kind == rm.Tail {
					return true
				}
			}
		}
	}
	for _, toks := range p.Roots {
		for _, t := range toks {
			if t.Kind == rm.Tail {
				return true
			}
		}
	}
	return false
}

func replayC14(rc routingCase, o rs.Outcome) error {
	b := rs.Build(rc.Table, rs.BuildOpt{Router: routerOf(rc.Router), Options: rc.Options, Switched: rc.Switched})
	twin := rc.Req
	twin.Slash = true
	o2 := b.Do(twin.HTTP(), h.NewRec(), false)
	fmt.Printf("with trailing slash: %s\n", o2.Key())
	if o.Key() != o2.Key() {
		return fmt.Errorf("p -> %s but p/ -> %s", o.Key(), o2.Key())
	}
	return nil
}

func checkC14(run *h.Run) {
	rs.Quiet(false)
	all := map[string]sweepStats{}
	var order []string
	for _, router := range []rm.Router{rm.Curly, rm.JSR311} {
		sweeps := routingSweeps(router, run.Tier, false)
		// (O1, O2) OPTIONS requests on containers with the OPTIONS filter installed: its Allow list
		// is part of the outcome
		uo := rs.Universe{Tokens: []string{"a", "b", "{x}"}, Roots: []string{"/", "/a", "/a/b", "/{r}", "/a/"}, MaxSub: 2, Segs: []string{"a", "b", "7"}, MaxPath: 3, RMethods: []string{"GET", "POST"}}
		oreqs := crossReqs(uo.Paths(), []string{"OPTIONS", "GET"}, rs.PathSweepHeaders[:1], false)
		sweeps = append(sweeps, sweep{"O1", router, singles(pathAtoms(uo)), oreqs}, sweep{"O2", router, pairs(pathAtoms(uo)), oreqs})
		for _, sp := range sweeps {
			if sp.Name == "H1" || sp.Name == "H2" {
				continue
			}
			// the single-route sweep runs on containers whose router was switched first (what the other
			// router leaves behind in the container must not matter)
			opt := rs.BuildOpt{Router: router, Options: sp.Name == "O1" || sp.Name == "O2", Switched: sp.Name == "P1"}
			// keep only p (no trailing slash, last segment non-empty, some non-empty segment) and build its twin p/
			var ps, twins []h.Req
			for _, r := range sp.Reqs {
				if r.Empty || r.Slash || len(r.Segs) == 0 || r.Segs[len(r.Segs)-1] == "" {
					continue
				}
				ps = append(ps, r)
				t := r
				t.Slash = true
				twins = append(twins, t)
			}
			sp.Reqs = append(ps, twins...)
			n := len(ps)
			sp := sp
			name := fmt.Sprintf("%s/%s", router, sp.Name)
			order = append(order, name)
			st := runSweep(run, sp, func(w *worker, t rm.Table, p *rm.Parsed, st *sweepStats) {
				if router == rm.JSR311 && hasTail(p) {
					return // RouterJSR311: templates without a tail wildcard
				}
				b := rs.Build(t, opt)
				if b.Panic != "" {
					atomic.AddInt64(&st.buildPanics, 1)
					return
				}
				var cases, disp, nontriv int64
				for qi := 0; qi < n; qi++ {
					// both orders on the same container
					o1 := b.Do(w.https[qi], w.rec, false)
					o2 := b.Do(w.https[n+qi], w.rec, false)
					o1b := b.Do(w.https[qi], w.rec, false)
					disp += 3
					cases++
					k1, k2 := o1.Key(), o2.Key()
					if o1.Status != 404 || o2.Status != 404 {
						nontriv++
					}
					if k1 != k2 || k1 != o1b.Key() {
						rc := routingCase{Sweep: sp.Name, Router: router.String(), Table: t, Req: w.reqs[qi], Observed: o1, Other: o2, Options: opt.Options, Switched: opt.Switched}
						qi := qi
						run.Violate("trailing-slash/"+router.String(), "", fmt.Sprintf("[%s] %v ; %v -> %s but with trailing slash -> %s (again without: %s)", router, t, w.reqs[qi], k1, k2, o1b.Key()), rc, func() bool {
							b2 := rs.Build(t, opt)
							a := b2.Do(w.reqs[qi].HTTP(), h.NewRec(), false)
							c := b2.Do(w.reqs[n+qi].HTTP(), h.NewRec(), false)
							return a.Key() != c.Key()
						})
					} else if nontriv%7919 == 1 {
						run.Sample(map[string]any{"sweep": name, "table": t.String(), "p": w.reqs[qi].String(), "outcome_both": k1})
					}
				}
				atomic.AddInt64(&st.cases, cases)
				atomic.AddInt64(&st.dispatches, disp)
				atomic.AddInt64(&st.nontrivial, nontriv)
			})
			all[name] = st
		}
	}
	cases, disp, nontriv := sweepCoverage(run, all, order)
	run.Cov["states"] = cases
	run.Cov["transitions"] = disp
	run.Cov["traces_validated_against_impl"] = disp
	run.Cov["evaluations"] = disp
	run.Cov["distinct_nontrivial"] = nontriv
	run.Cov["exhaustive"] = true
	run.Cov["rule"] = "E1: sweeps P1, P2, X2, P4, P5, M1, M2, D1, W1 (thorough P3, deep variants), and O1/O2 (1- and 2-route tables incl. a root declared with a trailing slash, on containers with the OPTIONS filter installed, OPTIONS and GET requests), restricted to paths p with a non-empty last segment and no trailing slash; p, p/ and p again are dispatched on the same container; outcome = status, route id, parameter map, Allow set. CurlyRouter on all templates, RouterJSR311 on tables without a tail wildcard. Non-trivial: at least one of the two is not a 404."
	run.Assume = []string{"purely differential: no reference model involved", "default path strategy (TrimRightSlashEnabled=true)"}
}
