package main

import (
	"fmt"
	"sync/atomic"

	"verif/harness/h"
	rm "verif/harness/refmodel"
	"verif/harness/rs"
)

func init() { register("C02", checkC02, replayRouting(replayC02)) }

// matchExp tells whether the observed outcome is the expected outcome e (C02 clause by clause).
func matchExp(o rs.Outcome, e rm.Exp) string {
	if o.Panic != "" {
		return "panic: " + o.Panic
	}
	if e.Status == 200 {
		if len(o.Invoked) != 1 {
			return fmt.Sprintf("expected exactly one invocation of one of %v, got %d (status %d)", e.Eligible, len(o.Invoked), o.Status)
		}
		ok := false
		for _, id := range e.Eligible {
			if id == o.Invoked[0].ID {
				ok = true
			}
		}
		if !ok {
			return fmt.Sprintf("route #%d ran but the eligible routes are %v", o.Invoked[0].ID, e.Eligible)
		}
		if o.Status != 200 {
			return fmt.Sprintf("route ran but status is %d", o.Status)
		}
		return ""
	}
	if len(o.Invoked) != 0 {
		return fmt.Sprintf("expected status %d and no invocation, but route #%d ran", e.Status, o.Invoked[0].ID)
	}
	if o.Status != e.Status {
		return fmt.Sprintf("expected status %d, got %d", e.Status, o.Status)
	}
	if e.Status == 405 {
		if !o.HasAllow || !h.EqStrs(o.Allow, e.Allow) {
			return fmt.Sprintf("405 Allow is %v, expected exactly %v", o.Allow, e.Allow)
		}
	}
	return ""
}

func judgeC02(p *rm.Parsed, mq rm.Request, r rm.Router, o rs.Outcome) (string, rm.Analysis) {
	an := p.Analyse(mq, r)
	first := ""
	for _, e := range an.Exps {
		why := matchExp(o, e)
		if why == "" {
			return "", an
		}
		if first == "" {
			first = why
		}
	}
	if o.Panic == "" {
		// two points no property decides (plain variable vs empty segment, tail wildcard vs zero
		// remaining segments): an outcome that is right under a lenient reading is accepted
		for _, lr := range r.Readings()[1:] {
			for _, e := range p.Analyse(mq, lr).Exps {
				if matchExp(o, e) == "" {
					return "", an
				}
			}
		}
	}
	return first, an
}

func replayC02(rc routingCase, o rs.Outcome) error {
	p := rm.Parse(rc.Table)
	if rc.Serve {
		if o.Panic != "" || len(o.Invoked) > 1 {
			return fmt.Errorf("ServeHTTP: %s", o.Key())
		}
		return nil
	}
	why, an := judgeC02(p, rs.ModelReq(rc.Req), routerOf(rc.Router), o)
	fmt.Printf("expected (one of): %+v\n", an.Exps)
	if why != "" {
		return fmt.Errorf("%s", why)
	}
	return nil
}

func checkC02(run *h.Run) {
	outcomes := h.NewDistinctSet(100000)
	all := map[string]sweepStats{}
	var order []string
	var multiMax int64
	for _, trace := range []bool{false, true} {
		rs.Quiet(trace)
		for _, router := range []rm.Router{rm.Curly, rm.JSR311} {
			for _, sp := range routingSweeps(router, run.Tier, trace && run.Tier == "quick") {
				sp := sp
				name := fmt.Sprintf("%s/%s/trace=%v", router, sp.Name, trace)
				order = append(order, name)
				serveToo := sp.Name == "P1"
				st := runSweep(run, sp, func(w *worker, t rm.Table, p *rm.Parsed, st *sweepStats) {
					b := rs.Build(t, rs.BuildOpt{Router: router, Switched: trace, Reuse: sp.Name == "R2"})
					if b.Panic != "" {
						atomic.AddInt64(&st.buildPanics, 1)
						run.Violate("construction-panic", "", fmt.Sprintf("building %v panics: %s", t, b.Panic),
							routingCase{Sweep: sp.Name, Router: router.String(), Table: t}, nil)
						return
					}
					var cases, disp, nontriv int64
					for qi := range w.reqs {
						o := b.Do(w.https[qi], w.rec, false)
						disp++
						cases++
						why, an := judgeC02(p, w.mreqs[qi], router, o)
						if an.NonTrivial {
							nontriv++
						}
						if len(an.Maximal) > 1 {
							atomic.AddInt64(&multiMax, 1)
						}
						if qi%7 == 0 {
							outcomes.Add(fmt.Sprintf("%d/%d/%v", o.Status, len(o.Invoked), o.Allow))
						}
						if why != "" {
							rc := routingCase{Sweep: sp.Name, Router: router.String(), Table: t, Req: w.reqs[qi], Observed: o, Expected: an.Exps, Tier: run.Tier, Lite: trace && run.Tier == "quick", ReqIndex: qi, Switched: trace, Reuse: sp.Name == "R2"}
							qi := qi
							run.ViolateH("outcome/"+router.String(), "", fmt.Sprintf("[%s trace=%v] %v ; %v : %s", router, trace, t, w.reqs[qi], why), rc, func() bool {
								b2 := rs.Build(t, rs.BuildOpt{Router: router, Switched: trace, Reuse: sp.Name == "R2"})
								o2 := b2.Do(w.reqs[qi].HTTP(), h.NewRec(), false)
								w2, _ := judgeC02(p, w.mreqs[qi], router, o2)
								return w2 != ""
							}, func() bool {
								b3 := rs.Build(t, rs.BuildOpt{Router: router, Switched: trace, Reuse: sp.Name == "R2"})
								var o3 rs.Outcome
								for k := 0; k <= qi; k++ {
									o3 = b3.Do(w.reqs[k].HTTP(), h.NewRec(), false)
								}
								w3, _ := judgeC02(p, w.mreqs[qi], router, o3)
								return w3 != ""
							})
						}
						if serveToo && !trace && w.reqs[qi].Method == "GET" && !w.reqs[qi].Empty {
							o := b.Do(w.https[qi], w.rec, true)
							disp++
							if o.Panic != "" || len(o.Invoked) > 1 {
								rc := routingCase{Sweep: sp.Name, Router: router.String(), Table: t, Req: w.reqs[qi], Serve: true, Observed: o}
								run.Violate("servehttp-panic-or-double", "", fmt.Sprintf("[%s] ServeHTTP %v ; %v : %s", router, t, w.reqs[qi], o.Key()), rc, nil)
							}
						}
					}
					if t.Svcs[0].Routes[0].ID == 0 && atomic.LoadInt64(&st.tables)%977 == 0 && len(w.reqs) > 3 {
						run.Sample(map[string]any{"sweep": name, "table": t.String(), "request": w.reqs[len(w.reqs)/3].String()})
					}
					atomic.AddInt64(&st.cases, cases)
					atomic.AddInt64(&st.dispatches, disp)
					atomic.AddInt64(&st.nontrivial, nontriv)
				})
				all[name] = st
			}
		}
	}
	cases, disp, nontriv := sweepCoverage(run, all, order)
	run.Cov["states"] = cases
	run.Cov["transitions"] = disp
	run.Cov["traces_validated_against_impl"] = disp
	run.Cov["evaluations"] = disp
	run.Cov["distinct_nontrivial"] = nontriv
	run.Cov["distinct_outcomes"] = outcomes.Len()
	run.Cov["cases_with_several_maximal_roots_accepted_any"] = multiMax
	run.Cov["exhaustive"] = true
	run.Cov["rule"] = "E1 (the trace-on pass runs on containers whose router was switched first - the other router configured, then this one): full product of the stated alphabets per sweep (P1 single-route tables x all paths x methods x 2 header combos, also through ServeHTTP for no-panic/at-most-once; P2 all 2-route tables over halved alphabets; H1/H2 1-2 routes x full Consumes/Produces/If/Content-Type/Accept/body product; X2 2-route cross sweep; thorough adds P3 3-route tables), both routers, trace off and on. A state is one (table, request) case, a transition one real dispatch on a fresh real container. Non-trivial: the request path matches a route template or misses it by at most one token/segment."
	run.Assume = []string{"reference model of DESIGN.md §5 (printed admit rules) is the specification", "alphabets bound the claim: templates <= 3 tokens, <= 3 routes, listed segments/headers",
		"RouterJSR311: best root unspecified when a variable root competes -> any claiming root accepted"}
}
