package main

import (
	"fmt"
	"strings"
	"sync/atomic"

	"verif/harness/h"
	rm "verif/harness/refmodel"
	"verif/harness/rs"
)

func init() { register("C18", checkC18, replayRouting(replayC18)) }

// commonSweeps: tables from the fragment both routers document (literal root paths incl. nested;
// route segments literal or plain variable), all three sweep kinds.
func commonSweeps(tier string) []sweep {
	u := rs.Universe{Tokens: []string{"a", "b", "{x}", "{y}", "v1.0", "é d"}, Roots: []string{"/", "/a", "/a/b", "/b", "/é d"}, MaxSub: 2,
		Segs: []string{"a", "b", "7", "v1.0", "v1x0", "", "é d"}, MaxPath: 3, RMethods: []string{"GET", "POST"}, QMethods: []string{"GET", "POST", "PUT"}}
	us := u
	us.Tokens = []string{"a", "b", "{x}", "{y}"}
	us.Segs = []string{"a", "b", "7", ""}
	if tier == "thorough" {
		u.MaxSub, u.MaxPath = 3, 4
		u.Roots = append(u.Roots, "/a/", "/a/b/c")
		u.Segs = append(u.Segs, "é", "a/b")
		u.Lead = true
		us.MaxSub = 2
	} else {
		us.MaxSub = 2
		us.Roots = []string{"/", "/a", "/a/b", "/a/"}
	}
	out := []sweep{
		{"P1", rm.Curly, singles(pathAtoms(u)), pathReqs(u.Paths(), u.QMethods, false)},
		{"P2", rm.Curly, pairs(pathAtoms(us)), crossReqs(us.Paths(), us.QMethods, rs.PathSweepHeaders[:1], false)},
	}
	// (P2m) two-route tables over literals of different lengths and with regex metacharacters: the
	// routers rank by different measures of "how literal" a template is
	um := rs.Universe{Tokens: []string{"v1.0", "docs", "ab", "a", "{x}", "{y}"}, Roots: []string{"/", "/a"}, MaxSub: 2,
		Segs: []string{"v1.0", "docs", "ab", "a", "v1x0"}, MaxPath: 3, RMethods: []string{"GET", "POST"}, QMethods: []string{"GET", "POST", "PUT"}}
	if tier == "thorough" {
		um.Tokens = append(um.Tokens, "v1.0.1", "archive")
		um.Segs = append(um.Segs, "v1.0.1", "archive")
	}
	out = append(out, sweep{"P2m", rm.Curly, pairs(pathAtoms(um)), crossReqs(um.Paths(), um.QMethods, rs.PathSweepHeaders[:1], false)})
	out = append(out, wideSweep(rm.Curly))
	// (M1/M2) every route method x every request method (HEAD, PATCH, OPTIONS ... declared through
	// the per-method shortcuts) on a service with a non-root path
	allMethods := []string{"GET", "POST", "PUT", "DELETE", "PATCH", "HEAD", "OPTIONS"}
	mu := rs.Universe{Tokens: []string{"{x}"}, Roots: []string{"/m"}, MaxSub: 1, Segs: []string{"m", "1"}, MaxPath: 2, RMethods: allMethods}
	mreqs := crossReqs(mu.Paths(), allMethods, rs.PathSweepHeaders[:1], false)
	out = append(out, sweep{"M1", rm.Curly, singles(pathAtoms(mu)), mreqs}, sweep{"M2", rm.Curly, pairs(pathAtoms(mu)), mreqs})
	hu := rs.QuickHeaders()
	if tier == "thorough" {
		hu = rs.ThoroughHeaders()
	}
	ha := headerAtoms("/h", []string{"/{x}"}, []string{"GET", "POST"}, hu.Decls())
	hreqs := crossReqs([]h.Req{{Segs: []string{"h", "1"}}}, []string{"GET", "POST", "PUT", "DELETE"}, hu.Combos(), false)
	out = append(out, sweep{"H1", rm.Curly, singles(ha), hreqs})
	if tier == "thorough" {
		out = append(out, sweep{"H2", rm.Curly, pairs(ha), hreqs})
	}
	xu := rs.Universe{Tokens: []string{"a", "{x}"}, Roots: []string{"/", "/a"}, MaxSub: 1, Segs: []string{"a", "b"}, MaxPath: 2, RMethods: []string{"GET", "POST"}}
	xh := rs.HeaderUniverse{Consumes: [][]string{nil, {rs.JSON}}, Produces: [][]string{nil, {rs.XML}}, Ifs: [][]rm.Cond{nil, {rm.CondHdr}}, NoCT: [][]string{nil},
		CTs: []string{"", "text/plain"}, Accepts: []string{"", "text/plain"}, XCs: []string{"", "1"}, Bodies: []bool{false, true}}
	var xa []atom
	for _, root := range xu.Roots {
		xa = append(xa, headerAtoms(root, xu.Subs(), xu.RMethods, xh.Decls())...)
	}
	out = append(out, sweep{"X2", rm.Curly, pairs(xa), crossReqs(xu.Paths(), []string{"GET", "POST", "PUT"}, xh.Combos(), false)})
	if tier == "thorough" {
		u3 := rs.Universe{Tokens: []string{"a", "b", "{x}"}, Roots: []string{"/", "/a", "/a/b"}, MaxSub: 2, Segs: []string{"a", "b", "7"}, MaxPath: 3,
			RMethods: []string{"GET", "POST"}, QMethods: []string{"GET", "POST", "PUT"}}
		out = append(out, sweep{"P3", rm.Curly, triples(pathAtoms(u3)), crossReqs(u3.Paths(), u3.QMethods, rs.PathSweepHeaders[:1], false)})
	}
	return out
}

// nonCanonical: the path has an empty segment other than one trailing slash (ServeMux would
// redirect such a path; only Dispatch can deliver it).
func nonCanonical(path string) bool {
	return strings.Contains(path, "//")
}

// f12: signature of the recorded finding F12 - on a non-canonical path CurlyRouter trims and
// routes while RouterJSR311, which matches the raw path, answers 404.
func f12(path string, curly, jsr rs.Outcome) bool {
	return nonCanonical(path) && jsr.Status == 404 && len(jsr.Invoked) == 0 && curly.Status != 404 && curly.Panic == "" && jsr.Panic == ""
}

// f17: signature of the recorded finding F17 - two eligible routes of one WebService neither of
// which is less specific than the other (e.g. /aa/{x} and /{y}/b for GET /aa/b): RouterJSR311
// ranks by the number of literal characters and picks the one with more of them, CurlyRouter
// ranks by the number of literal segments (then by path text) and picks the other.
func f17(p *rm.Parsed, curly, jsr rs.Outcome) bool {
	if len(curly.Invoked) != 1 || len(jsr.Invoked) != 1 || curly.Panic != "" || jsr.Panic != "" {
		return false
	}
	cs, cr, ok1 := p.RouteByID(curly.Invoked[0].ID)
	js, jr, ok2 := p.RouteByID(jsr.Invoked[0].ID)
	if !ok1 || !ok2 || cs != js || cr == jr {
		return false
	}
	ct, jt := p.Full[cs][cr], p.Full[js][jr]
	lit := func(toks []rm.Tok) (chars, segs int) {
		for _, t := range toks {
			if t.Kind == rm.Lit {
				chars += len(t.Text)
				segs++
			}
		}
		return
	}
	cc, cn := lit(ct)
	jc, jn := lit(jt)
	return jc > cc && cn >= jn && !rm.LessSpecificRoute(ct, jt) && !rm.LessSpecificRoute(jt, ct)
}

func c18Finding(p *rm.Parsed, path string, curly, jsr rs.Outcome) string {
	switch {
	case f12(path, curly, jsr):
		return "F12"
	case f17(p, curly, jsr):
		return "F17"
	}
	return ""
}

func replayC18(rc routingCase, o rs.Outcome) error {
	b2 := rs.Build(rc.Table, rs.BuildOpt{Router: rm.JSR311})
	o2 := b2.Do(rc.Req.HTTP(), h.NewRec(), false)
	fmt.Printf("RouterJSR311: %s\n", o2.Key())
	if o.Key() != o2.Key() {
		if f := c18Finding(rm.Parse(rc.Table), rc.Req.Path(), o, o2); f != "" {
			fmt.Printf("(matches the recorded finding %s)\n", f)
		}
		return fmt.Errorf("CurlyRouter -> %s, RouterJSR311 -> %s", o.Key(), o2.Key())
	}
	if rc.Tier == "" {
		return nil
	}
	// not reproduced alone: replay the requests the two containers had served before it
	for _, sp := range commonSweeps(rc.Tier) {
		if sp.Name == rc.Sweep && rc.ReqIndex < len(sp.Reqs) {
			ca, cb := rs.Build(rc.Table, rs.BuildOpt{Router: rm.Curly}), rs.Build(rc.Table, rs.BuildOpt{Router: rm.JSR311})
			var a, b rs.Outcome
			for k := 0; k <= rc.ReqIndex; k++ {
				a = ca.Do(sp.Reqs[k].HTTP(), h.NewRec(), false)
				b = cb.Do(sp.Reqs[k].HTTP(), h.NewRec(), false)
			}
			fmt.Printf("after the %d requests served before it on the same containers: CurlyRouter -> %s, RouterJSR311 -> %s\n", rc.ReqIndex, a.Key(), b.Key())
			if a.Key() != b.Key() {
				return fmt.Errorf("CurlyRouter -> %s, RouterJSR311 -> %s (needs its history)", a.Key(), b.Key())
			}
		}
	}
	return nil
}

func checkC18(run *h.Run) {
	rs.Quiet(false)
	all := map[string]sweepStats{}
	var order []string
	var canon, noncanon int64
	for _, sp := range commonSweeps(run.Tier) {
		sp := sp
		order = append(order, sp.Name)
		st := runSweep(run, sp, func(w *worker, t rm.Table, p *rm.Parsed, st *sweepStats) {
			bc := rs.Build(t, rs.BuildOpt{Router: rm.Curly})
			bj := rs.Build(t, rs.BuildOpt{Router: rm.JSR311})
			if bc.Panic != "" || bj.Panic != "" {
				atomic.AddInt64(&st.buildPanics, 1)
				return
			}
			var cases, disp, nontriv, cn, ncn int64
			for qi := range w.reqs {
				oc := bc.Do(w.https[qi], w.rec, false)
				oj := bj.Do(w.https[qi], w.rec, false)
				disp += 2
				cases++
				path := w.mreqs[qi].Path
				if nonCanonical(path) {
					ncn++
				} else {
					cn++
				}
				if oc.Status != 404 || oj.Status != 404 {
					nontriv++
				}
				kc, kj := oc.Key(), oj.Key()
				if kc != kj {
					finding := c18Finding(p, path, oc, oj)
					rc := routingCase{Sweep: sp.Name, Router: "curly", Table: t, Req: w.reqs[qi], Observed: oc, Other: oj, Tier: run.Tier, ReqIndex: qi}
					qi := qi
					run.ViolateH("routers-disagree", finding, fmt.Sprintf("%v ; %v : CurlyRouter -> %s, RouterJSR311 -> %s", t, w.reqs[qi], kc, kj), rc, func() bool {
						a := rs.Build(t, rs.BuildOpt{Router: rm.Curly}).Do(w.reqs[qi].HTTP(), h.NewRec(), false)
						b := rs.Build(t, rs.BuildOpt{Router: rm.JSR311}).Do(w.reqs[qi].HTTP(), h.NewRec(), false)
						return a.Key() != b.Key()
					}, func() bool {
						// with the requests the two containers served before it
						ca, cb := rs.Build(t, rs.BuildOpt{Router: rm.Curly}), rs.Build(t, rs.BuildOpt{Router: rm.JSR311})
						var a, b rs.Outcome
						for k := 0; k <= qi; k++ {
							a = ca.Do(w.reqs[k].HTTP(), h.NewRec(), false)
							b = cb.Do(w.reqs[k].HTTP(), h.NewRec(), false)
						}
						return a.Key() != b.Key()
					})
				} else if nontriv%8191 == 1 {
					run.Sample(map[string]any{"sweep": sp.Name, "table": t.String(), "request": w.reqs[qi].String(), "both_routers": kc})
				}
			}
			atomic.AddInt64(&st.cases, cases)
			atomic.AddInt64(&st.dispatches, disp)
			atomic.AddInt64(&st.nontrivial, nontriv)
			atomic.AddInt64(&canon, cn)
			atomic.AddInt64(&noncanon, ncn)
		})
		all[sp.Name] = st
	}
	cases, disp, nontriv := sweepCoverage(run, all, order)
	run.Cov["states"] = cases
	run.Cov["transitions"] = disp
	run.Cov["traces_validated_against_impl"] = disp
	run.Cov["evaluations"] = disp
	run.Cov["distinct_nontrivial"] = nontriv
	run.Cov["canonical_path_cases"] = canon
	run.Cov["non_canonical_path_cases_dispatch_only"] = noncanon
	run.Cov["exhaustive"] = true
	run.Cov["rule"] = "E1 differential: twin containers differing only in Container.Router on tables of the common fragment (literal roots incl. nested and literal tokens with regex metacharacters; route tokens literal or {v}); sweeps P1, P2, H1, X2 (thorough: larger alphabets, H2, P3); outcome = status, route id, parameter map, Allow set. Non-trivial: not 404 under both routers."
	run.Assume = []string{"purely differential: no reference model involved", "empty path excluded (a request line cannot express it)"}
}
