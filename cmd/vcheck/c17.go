package main

import (
	"fmt"
	restful "github.com/emicklei/go-restful/v3"
	"strings"
	"sync/atomic"

	"verif/harness/h"
	rm "verif/harness/refmodel"
	"verif/harness/rs"
)

func init() { register("C17", checkC17, replayRouting(replayC17)) }

var c17Methods = []string{"GET", "POST", "PUT", "OPTIONS", "DELETE"} // route methods GET/POST/PUT + OPTIONS + one foreign method

// (MX) extension methods whose names contain one another (LOCK / UNLOCK, PATCH / PROPPATCH)
var c17MXMethods = []string{"GET", "LOCK", "UNLOCK", "OPTIONS", "PATCH", "PROPPATCH", "DELETE"}

func c17MethodsOf(sweepName string) []string {
	if sweepName == "MX" {
		return c17MXMethods
	}
	return c17Methods
}

// mxTables: one service /m with 2-3 routes on /{x}, every ordered selection of distinct methods
// from {GET, LOCK, UNLOCK, PATCH, PROPPATCH} (the order of registration is the order of the list).
func mxTables() tableGen {
	ms := []string{"GET", "LOCK", "UNLOCK", "PATCH", "PROPPATCH"}
	var tabs []rm.Table
	var rec func(cur []string)
	rec = func(cur []string) {
		if len(cur) >= 2 {
			var routes []rm.RouteDecl
			for i, m := range cur {
				routes = append(routes, rm.RouteDecl{ID: i, Method: m, Sub: "/{x}"})
			}
			tabs = append(tabs, rm.Table{Svcs: []rm.SvcDecl{{Root: "/m", Routes: routes}}})
		}
		if len(cur) == 3 {
			return
		}
		for _, m := range ms {
			dup := false
			for _, c := range cur {
				dup = dup || c == m
			}
			if !dup {
				rec(append(append([]string{}, cur...), m))
			}
		}
	}
	rec(nil)
	return tableGen{len(tabs), func(i int) rm.Table { return tabs[i] }}
}

func c17Sweeps(tier string) []sweep {
	u := rs.Universe{Tokens: []string{"a", "b", "{x}", "{y}"}, Roots: []string{"/", "/a", "/a/b", "/é d", "/a/"}, MaxSub: 2,
		Segs: []string{"a", "b", "é d"}, MaxPath: 3, RMethods: []string{"GET", "POST", "PUT"}}
	if tier == "thorough" {
		u.Tokens = []string{"a", "b", "{x}", "{y}"}
		u.Roots = []string{"/", "/a", "/a/b", "/b", "/a/b/c", "/a/"}
		u.MaxPath = 4
	}
	// one path per segment string (no trailing-slash twins: C14 owns that), grouped by URL
	var paths []h.Req
	for _, r := range u.Paths() {
		if !r.Slash {
			paths = append(paths, r)
		}
	}
	reqs := crossReqs(paths, c17Methods, rs.PathSweepHeaders[:1], false)
	atoms := pathAtoms(u)
	// a Consumes-restricted variant so that 415 (routable, not 404/405) occurs
	atoms = append(atoms, atom{"/a", rm.RouteDecl{Method: "POST", Sub: "/{x}", Consumes: []string{rs.JSON}}})
	// route paths declared without a leading slash
	atoms = append(atoms, bareAtoms([]string{"/", "/a", "/a/"}, []string{"{x}", "b/{x}"}, []string{"GET", "POST"})...)
	out := []sweep{{"P1", rm.Curly, singles(atoms), reqs}, {"P2", rm.Curly, pairs(atoms), reqs}}
	// P2r: the two-route tables whose routes share a service, the second route declared by using the
	// first route's RouteBuilder again (other method / path)
	out = append(out, sweep{"P2r", rm.Curly, sameService(pairs(atoms)), reqs})
	out = append(out, sweep{"MX", rm.Curly, mxTables(), crossReqs([]h.Req{{Segs: []string{"m", "1"}}, {Segs: []string{"m"}}}, c17MXMethods, rs.PathSweepHeaders[:1], false)})
	// P3s: every three-route table over a tiny alphabet (a method repeated among three candidates)
	us := rs.Universe{Tokens: []string{"a", "{x}"}, Roots: []string{"/a"}, MaxSub: 1, RMethods: []string{"GET", "POST", "PUT"}}
	out = append(out, sweep{"P3s", rm.Curly, triples(pathAtoms(us)), reqs})
	if tier == "thorough" {
		u3 := u
		u3.Tokens = []string{"a", "b", "{x}"}
		u3.Roots = []string{"/", "/a", "/a/b"}
		u3.MaxSub = 1
		u3.RMethods = []string{"GET", "POST"}
		out = append(out, sweep{"P3", rm.Curly, triples(pathAtoms(u3)), reqs})
	}
	return out
}

// f10: signature of the recorded finding F10 - the OPTIONS filter reports the union of the
// methods of the path-matching routes of EVERY WebService whose root matches the URL, while
// dispatch only uses the best-matching one.
func f10(p *rm.Parsed, path string, r rm.Router, observed, expected []string) bool {
	union := map[string]bool{}
	claiming := 0
	for si := range p.T.Svcs {
		if !rm.Claims(p.Roots[si], path, r) {
			continue
		}
		claiming++
		for ri, rt := range p.T.Svcs[si].Routes {
			if ok, _ := rm.PathMatches(p.Full[si][ri], path, r); ok {
				union[rt.Method] = true
			}
		}
	}
	var u []string
	for m := range union {
		u = append(u, m)
	}
	u = h.SortedCopy(u)
	// the finding needs two services whose roots both claim the URL
	return claiming >= 2 && h.EqStrs(observed, u) && !h.EqStrs(observed, expected)
}

type c17Result struct {
	why, finding string
}

// judgeURL evaluates the C17 oracle for one URL: outcomes per method on the filter-less twin
// (plain) and on the container with the OPTIONS filter (filt).
func judgeURL(p *rm.Parsed, path string, r rm.Router, methods []string, plain, filt []rs.Outcome, filtHdr []map[string][]string) []c17Result {
	var res []c17Result
	var routable []string
	for i, m := range methods {
		if plain[i].Status != 404 && plain[i].Status != 405 {
			routable = append(routable, m)
		}
	}
	routable = h.SortedCopy(routable)
	for i, m := range methods {
		if plain[i].Status == 405 {
			if !plain[i].HasAllow || !h.EqStrs(plain[i].Allow, routable) {
				res = append(res, c17Result{fmt.Sprintf("%s %s -> 405 with Allow %v but the routable methods are %v", m, path, plain[i].Allow, routable), ""})
			}
		}
		if m == "OPTIONS" {
			if len(filt[i].Invoked) != 0 {
				res = append(res, c17Result{fmt.Sprintf("OPTIONS %s with the OPTIONS filter invoked route #%d", path, filt[i].Invoked[0].ID), ""})
			}
			allow := h.SetOf(strings.Join(filtHdr[i]["Allow"], ","))
			acam := h.SetOf(strings.Join(filtHdr[i]["Access-Control-Allow-Methods"], ","))
			for _, pair := range []struct {
				name string
				got  []string
			}{{"Allow", allow}, {"Access-Control-Allow-Methods", acam}} {
				if !h.EqStrs(pair.got, routable) {
					f := ""
					if f10(p, path, r, pair.got, routable) {
						f = "F10"
					}
					res = append(res, c17Result{fmt.Sprintf("OPTIONS filter: %s for %s is %v but the routable methods are %v", pair.name, path, pair.got, routable), f})
				}
			}
		} else if filt[i].Key() != plain[i].Key() {
			res = append(res, c17Result{fmt.Sprintf("%s %s: with the OPTIONS filter -> %s, without -> %s", m, path, filt[i].Key(), plain[i].Key()), ""})
		}
	}
	return res
}

func c17Probe(t rm.Table, r rm.Router, base h.Req, methods []string, reuse bool) ([]rs.Outcome, []rs.Outcome, []map[string][]string) {
	bp := rs.Build(t, rs.BuildOpt{Router: r, Reuse: reuse})
	bf := rs.Build(t, rs.BuildOpt{Router: r, Options: true, Reuse: reuse})
	var plain, filt []rs.Outcome
	var hdr []map[string][]string
	for _, m := range methods {
		q := base
		q.Method = m
		plain = append(plain, bp.Do(q.HTTP(), h.NewRec(), false))
		rec := h.NewRec()
		filt = append(filt, bf.Do(q.HTTP(), rec, false))
		hdr = append(hdr, rec.Result().Clone())
	}
	return plain, filt, hdr
}

// c17AfterRemoval: OPTIONS is served for the URL first (whatever the container memoises while
// serving must not survive a change of its routes), then the only route of the table is removed
// (dynamic routes) from the filtered container and its filter-less twin, then every method is probed.
func c17AfterRemoval(t rm.Table, r rm.Router, base h.Req, methods []string, replace bool) ([]rs.Outcome, []rs.Outcome, []map[string][]string, bool) {
	bp := rs.Build(t, rs.BuildOpt{Router: r, Dynamic: true})
	bf := rs.Build(t, rs.BuildOpt{Router: r, Options: true, Dynamic: true})
	if bp.Panic != "" || bf.Panic != "" || len(bf.WS) != 1 || len(bf.WS[0].Routes()) != 1 {
		return nil, nil, nil, false
	}
	q := base
	q.Method = "OPTIONS"
	bf.Do(q.HTTP(), h.NewRec(), false)
	bp.Do(q.HTTP(), h.NewRec(), false)
	if replace {
		// traffic on every method first; then the route is replaced by one with another method on the
		// same path, with no request between the RemoveRoute and the Route (the route count is the same again)
		for _, m := range methods {
			q.Method = m
			bf.Do(q.HTTP(), h.NewRec(), false)
			bp.Do(q.HTTP(), h.NewRec(), false)
		}
	}
	for _, b := range []*rs.Built{bp, bf} {
		rt := b.WS[0].Routes()[0]
		if err := b.WS[0].RemoveRoute(rt.Path, rt.Method); err != nil {
			return nil, nil, nil, false
		}
		if replace {
			m2 := "PUT"
			if rt.Method == "PUT" {
				m2 = "GET"
			}
			b.WS[0].Route(b.WS[0].Method(m2).Path(t.Svcs[0].Routes[0].Sub).To(func(req *restful.Request, resp *restful.Response) {}))
		}
	}
	var plain, filt []rs.Outcome
	var hdr []map[string][]string
	for _, m := range methods {
		q := base
		q.Method = m
		plain = append(plain, bp.Do(q.HTTP(), h.NewRec(), false))
		rec := h.NewRec()
		filt = append(filt, bf.Do(q.HTTP(), rec, false))
		hdr = append(hdr, rec.Result().Clone())
	}
	return plain, filt, hdr, true
}

func replayC17(rc routingCase, o rs.Outcome) error {
	r := routerOf(rc.Router)
	c17Methods := c17MethodsOf(rc.Sweep)
	plain, filt, hdr := c17Probe(rc.Table, r, rc.Req, c17Methods, rc.Reuse)
	for i, m := range c17Methods {
		fmt.Printf("%-8s plain: %-30s with OPTIONS filter: %s %v\n", m, plain[i].Key(), filt[i].Key(), hdr[i])
	}
	res := judgeURL(rm.Parse(rc.Table), rc.Req.Path(), r, c17Methods, plain, filt, hdr)
	if len(res) > 0 {
		return fmt.Errorf("%s", res[0].why)
	}
	for _, replace := range []bool{false, true} {
		if pl, fl, hd, ok := c17AfterRemoval(rc.Table, r, rc.Req, c17Methods, replace); ok {
			for i, m := range c17Methods {
				fmt.Printf("after RemoveRoute (replaced by another method: %v): %-8s plain: %-30s with OPTIONS filter: %s %v\n", replace, m, pl[i].Key(), fl[i].Key(), hd[i])
			}
			if res := judgeURL(rm.Parse(rc.Table), rc.Req.Path(), r, c17Methods, pl, fl, hd); len(res) > 0 {
				return fmt.Errorf("after RemoveRoute of the only route (replaced: %v): %s", replace, res[0].why)
			}
		}
	}
	return nil
}

func checkC17(run *h.Run) {
	rs.Quiet(false)
	all := map[string]sweepStats{}
	var order []string
	for _, router := range []rm.Router{rm.Curly, rm.JSR311} {
		for _, sp := range c17Sweeps(run.Tier) {
			sp, router := sp, router
			c17Methods := c17MethodsOf(sp.Name)
			nm := len(c17Methods)
			name := fmt.Sprintf("%s/%s", router, sp.Name)
			order = append(order, name)
			st := runSweep(run, sp, func(w *worker, t rm.Table, p *rm.Parsed, st *sweepStats) {
				reuse := sp.Name == "P2r"
				bp := rs.Build(t, rs.BuildOpt{Router: router, Reuse: reuse})
				bf := rs.Build(t, rs.BuildOpt{Router: router, Options: true, Reuse: reuse})
				if bp.Panic != "" || bf.Panic != "" {
					atomic.AddInt64(&st.buildPanics, 1)
					return
				}
				var cases, disp, nontriv int64
				plain := make([]rs.Outcome, nm)
				filt := make([]rs.Outcome, nm)
				hdr := make([]map[string][]string, nm)
				// requests are grouped by URL: nm consecutive methods per path
				for base := 0; base+nm <= len(w.reqs); base += nm {
					some := false
					for i := 0; i < nm; i++ {
						plain[i] = bp.Do(w.https[base+i], w.rec, false)
						filt[i] = bf.Do(w.https[base+i], w.rec, false)
						hdr[i] = w.rec.Result()
						disp += 2
						if plain[i].Status != 404 {
							some = true
						}
					}
					cases++
					if some {
						nontriv++
					}
					path := w.mreqs[base].Path
					for _, res := range judgeURL(p, path, router, c17Methods, plain, filt, hdr) {
						rc := routingCase{Sweep: sp.Name, Router: router.String(), Table: t, Req: w.reqs[base], Reuse: reuse}
						base := base
						class := "allow-mismatch/" + router.String()
						run.ViolateH(class, res.finding, fmt.Sprintf("[%s] %v : %s", router, t, res.why), rc, func() bool {
							pl, fl, hd := c17Probe(t, router, w.reqs[base], c17Methods, reuse)
							return len(judgeURL(p, path, router, c17Methods, pl, fl, hd)) > 0
						}, func() bool {
							// with the URLs the two containers were probed for before this one
							hp := rs.Build(t, rs.BuildOpt{Router: router, Reuse: reuse})
							hf := rs.Build(t, rs.BuildOpt{Router: router, Options: true, Reuse: reuse})
							pl, fl := make([]rs.Outcome, nm), make([]rs.Outcome, nm)
							hd := make([]map[string][]string, nm)
							for k := 0; k < base+nm; k++ {
								rec := h.NewRec()
								o1 := hp.Do(w.reqs[k].HTTP(), h.NewRec(), false)
								o2 := hf.Do(w.reqs[k].HTTP(), rec, false)
								if k >= base {
									pl[k-base], fl[k-base], hd[k-base] = o1, o2, rec.Result().Clone()
								}
							}
							return len(judgeURL(p, path, router, c17Methods, pl, fl, hd)) > 0
						})
					}
					if some && sp.Name == "P1" && len(t.Svcs) == 1 && len(t.Svcs[0].Routes) == 1 {
						// the same URL again after the route was removed from a container that has already served it
						for _, replace := range []bool{false, true} {
							replace := replace
							if pl, fl, hd, ok := c17AfterRemoval(t, router, w.reqs[base], c17Methods, replace); ok {
								disp += int64(2 * nm)
								for _, res := range judgeURL(p, path, router, c17Methods, pl, fl, hd) {
									rc := routingCase{Sweep: sp.Name, Router: router.String(), Table: t, Req: w.reqs[base]}
									base := base
									run.Violate("allow-mismatch-after-route-removal/"+router.String(), "", fmt.Sprintf("[%s] %v, OPTIONS served, then the route removed (replaced by another method: %v) : %s", router, t, replace, res.why), rc, func() bool {
										pl, fl, hd, ok := c17AfterRemoval(t, router, w.reqs[base], c17Methods, replace)
										return ok && len(judgeURL(p, path, router, c17Methods, pl, fl, hd)) > 0
									})
								}
							}
						}
					}
					if some && nontriv%4001 == 1 {
						run.Sample(map[string]any{"sweep": name, "table": t.String(), "url": path, "status_per_method": fmt.Sprint(c17Methods, statuses(plain)), "options_filter_allow": hdr[3]["Allow"]})
					}
				}
				atomic.AddInt64(&st.cases, cases)
				atomic.AddInt64(&st.dispatches, disp)
				atomic.AddInt64(&st.nontrivial, nontriv)
			})
			all[name] = st
		}
	}
	cases, disp, nontriv := sweepCoverage(run, all, order)
	run.Cov["states"] = cases
	run.Cov["transitions"] = disp
	run.Cov["traces_validated_against_impl"] = disp
	run.Cov["evaluations"] = disp
	run.Cov["distinct_nontrivial"] = nontriv
	run.Cov["exhaustive"] = true
	run.Cov["rule"] = "E1: every table of 1-2 routes (thorough: also 3) over literal / plain-variable tokens and nested literal roots x every URL of <= 3 segments; a state is one (table, URL) with one probe per method in {GET, POST, PUT, OPTIONS, DELETE} on a container with the OPTIONS filter and on a filter-less twin; routable(URL) is measured on the twin. P2r: the two-route tables whose routes share a service, the second route declared by using the first route's RouteBuilder again. P1 tables again with dynamic routes: OPTIONS served, the route removed, every method probed again (nothing memoised may survive); and once more with traffic on every method first and the route then replaced by one with another method on the same path, no request in between. P3s: every 3-route table over one root, sub-paths {'', /, /a, /{x}} and three methods. MX: 2-3 routes on one template in every order over extension methods whose names contain one another (LOCK/UNLOCK, PATCH/PROPPATCH). Non-trivial: some method is not answered 404."
	run.Assume = []string{"routable(URL) is measured, not modelled: {m | status(m, URL) not in {404, 405}} on the filter-less twin"}
}

func statuses(o []rs.Outcome) []int {
	s := make([]int, len(o))
	for i := range o {
		s[i] = o[i].Status
	}
	return s
}
