//go:build verif

package main

import (
	"bytes"
	"encoding/json"
	"fmt"
	"os"
	"os/exec"
	"runtime"
	"runtime/debug"
	"sort"
	"strings"
	"sync"
	"time"

	restful "github.com/emicklei/go-restful/v3"
	"github.com/emicklei/go-restful/v3/zverif/vsched"

	"verif/harness/h"
)

// e3Issue is one oracle failure of one execution.
type e3Issue struct {
	Kind string `json:"kind"` // race, deadlock, blocked, panic, oracle:<clause>
	Msg  string `json:"msg"`
}

// e3Inst is a fresh instance of a scenario: thread bodies over fresh real objects, an oracle
// evaluated on the complete execution and a canonical rendering of the observed outcome.
type e3Inst struct {
	Bodies  []vsched.Body
	Check   func(x *vsched.Execution) []e3Issue
	Outcome func() string
}

type e3Scenario struct {
	Name     string
	Bound    int  // preemption bound to complete
	NoRaces  bool // do not run the vector-clock detector
	PanicsOK bool // thread panics are outcomes handled by Check
	MaxSched int  // safety cap (0 = none); hitting it makes the result non-exhaustive
	New      func() *e3Inst
}

type e3Violation struct {
	Scenario    string    `json:"scenario"`
	Choices     []int     `json:"choices"`
	Preemptions int       `json:"preemptions"`
	Issues      []e3Issue `json:"issues"`
	Trace       []string  `json:"trace"`
	Finding     string    `json:"finding,omitempty"`
}

type e3Result struct {
	Name             string        `json:"name"`
	Schedules        int           `json:"schedules"`
	Points           int           `json:"points"`
	Decisions        int           `json:"decisions"`
	Deadlocks        int           `json:"deadlocks"`
	MaxDepth         int           `json:"max_depth"`
	BoundCompleted   int           `json:"bound_completed"`
	BoundAsked       int           `json:"bound_asked"`
	Exhaustive       bool          `json:"exhaustive"`
	Outcomes         []string      `json:"outcomes"`
	Violating        int           `json:"violating_executions"`
	Violations       []e3Violation `json:"violations"`
	Broken           string        `json:"broken,omitempty"`
	AllInterleavings int           `json:"all_interleavings"` // > 0: every interleaving was enumerated (no bound)
	SampleTrace      []string      `json:"sample_trace"`
	Shared           []string      `json:"shared_locations"`
	WallS            float64       `json:"wall_s"`
}

func e3Quiet() {
	restful.SetLogger(e3sink{})
	restful.TraceLogger(e3sink{})
	restful.EnableTracing(false)
}

type e3sink struct{}

func (e3sink) Print(v ...interface{})                 {}
func (e3sink) Printf(format string, v ...interface{}) {}

func issuesKey(is []e3Issue) string {
	var s []string
	for _, i := range is {
		s = append(s, i.Kind+": "+i.Msg)
	}
	return strings.Join(s, " | ")
}

var e3Runs int

// e3RestoreGlobals: the package-level variables of the package under test are put back to the
// values they had when this process started (before the harness served a single request: the
// snapshot is taken by an init function), so that no execution sees state left behind by an
// earlier one or by the harness's own measurements (a lazily built global, a process-wide cache
// or pool). The harness's own settings of package-level switches are applied again afterwards.
var e3Globals *vsched.GlobalSnapshot

func init() {
	e3Globals = vsched.SnapshotGlobals(restful.VerifGlobals())
	cleanPackageState = e3RestoreGlobals
}

func e3RestoreGlobals() {
	e3Globals.Restore()
	e3Quiet()
}

// e3RunOne executes one schedule of a scenario and evaluates all oracles.
func e3RunOne(sc e3Scenario, prefix []int) (*vsched.Execution, []e3Issue, string) {
	// The happens-before detector keys its shadow state by address. The garbage collector is off
	// while executions run, so no address is reused inside an execution (a freed per-request
	// object whose address is handed to another thread would look like a race); memory is
	// collected between executions.
	e3Runs++
	if e3Runs%64 == 1 {
		debug.SetGCPercent(-1)
		runtime.GC()
	}
	e3RestoreGlobals()
	inst := sc.New()
	x := vsched.RunOnce(inst.Bodies, prefix, !sc.NoRaces, 0)
	var issues []e3Issue
	if x.Horizon {
		issues = append(issues, e3Issue{"horizon", "execution exceeded the step horizon (livelock?)"})
	}
	if x.Deadlock {
		issues = append(issues, e3Issue{"deadlock", strings.Join(x.Stuck, "; ")})
	}
	for _, r := range x.Races {
		issues = append(issues, e3Issue{"race", r.String()})
	}
	if !sc.PanicsOK {
		ids := make([]int, 0, len(x.Panics))
		for id := range x.Panics {
			ids = append(ids, id)
		}
		sort.Ints(ids)
		for _, id := range ids {
			issues = append(issues, e3Issue{"panic", fmt.Sprintf("thread %d panicked: %s", id, x.Panics[id])})
		}
	}
	if !x.Horizon {
		issues = append(issues, inst.Check(x)...)
	}
	out := ""
	if inst.Outcome != nil && !x.Deadlock {
		out = inst.Outcome()
	}
	return x, issues, out
}

// e3Explore explores one scenario with iterative preemption bounding.
func e3Explore(sc e3Scenario, deadline time.Time) e3Result {
	start := time.Now()
	res := e3Result{Name: sc.Name, BoundAsked: sc.Bound, BoundCompleted: -1}
	// a throw-away instance first: whatever the scenario measures or memoises when it is first
	// instantiated happens now, not inside the first execution
	e3RestoreGlobals()
	sc.New()
	// determinism self-test: the default schedule twice
	x1, i1, o1 := e3RunOne(sc, nil)
	x2, i2, o2 := e3RunOne(sc, nil)
	if strings.Join(x1.Trace, ",") != strings.Join(x2.Trace, ",") || issuesKey(i1) != issuesKey(i2) || o1 != o2 {
		res.Broken = fmt.Sprintf("HARNESS-NONDETERMINISM: the default schedule of %s gave different observations on two runs:\n%v | %s | %s\n%v | %s | %s", sc.Name, x1.Trace, issuesKey(i1), o1, x2.Trace, issuesKey(i2), o2)
		return res
	}
	res.SampleTrace = x1.Trace
	res.Shared = x1.Shared
	outcomes := map[string]bool{}
	for b := 0; b <= sc.Bound; b++ {
		violBefore := len(res.Violations)
		outcomesB := map[string]bool{}
		var issuesOf = map[string][]e3Issue{}
		timedOut := false
		var lastIssues []e3Issue
		var lastOut string
		st := vsched.Explore(b, sc.MaxSched, func(prefix []int) *vsched.Execution {
			x, issues, out := e3RunOne(sc, prefix)
			lastIssues, lastOut = issues, out
			return x
		}, func(x *vsched.Execution) bool {
			if lastOut != "" {
				outcomesB[lastOut] = true
			}
			if len(lastIssues) > 0 {
				for _, is := range lastIssues {
					if is.Kind == "horizon" {
						res.Broken = "step horizon reached in " + sc.Name
						return false
					}
				}
				res.Violating++
				k := issuesKey(lastIssues)
				if _, seen := issuesOf[k]; !seen && len(res.Violations) < 8 {
					issuesOf[k] = lastIssues
					res.Violations = append(res.Violations, e3Violation{Scenario: sc.Name, Choices: append([]int{}, x.Choices...), Preemptions: x.Preemptions, Issues: lastIssues, Trace: x.Trace})
				}
				if res.Violating >= 40 {
					return false // enough evidence; abandoned goroutines of deadlocked executions leak
				}
			}
			if time.Now().After(deadline) {
				timedOut = true
				return false
			}
			return true
		})
		res.Schedules, res.Points, res.Decisions, res.Deadlocks = st.Schedules, st.Points, st.Decisions, st.Deadlocks
		if st.MaxDepth > res.MaxDepth {
			res.MaxDepth = st.MaxDepth
		}
		for o := range outcomesB {
			outcomes[o] = true
		}
		if res.Broken != "" {
			break
		}
		if timedOut || st.Cut {
			break
		}
		res.BoundCompleted = b
		if len(res.Violations) > violBefore || res.Violating > 0 {
			break // minimal-preemption counterexamples found; no need to go deeper
		}
	}
	res.Exhaustive = res.BoundCompleted == sc.Bound && res.Violating == 0 && res.Broken == ""
	// Small trees: also enumerate EVERY interleaving (no preemption bound at all), so the evidence
	// can say whether the bound was a restriction for this scenario.
	thr, capU := 120, 1500
	if e3Tier == "thorough" {
		thr, capU = 600, 6000
	}
	if res.Exhaustive && res.Schedules <= thr && time.Now().Before(deadline) {
		var lastIssues []e3Issue
		st := vsched.Explore(1<<30, capU, func(prefix []int) *vsched.Execution {
			x, issues, _ := e3RunOne(sc, prefix)
			lastIssues = issues
			return x
		}, func(x *vsched.Execution) bool {
			if len(lastIssues) > 0 {
				res.Violating++
				if len(res.Violations) < 8 {
					res.Violations = append(res.Violations, e3Violation{Scenario: sc.Name, Choices: append([]int{}, x.Choices...), Preemptions: x.Preemptions, Issues: lastIssues, Trace: x.Trace})
				}
				return false
			}
			return !time.Now().After(deadline)
		})
		if !st.Cut && res.Violating == 0 && !time.Now().After(deadline) {
			res.AllInterleavings = st.Schedules
			res.Schedules, res.Points, res.Decisions = st.Schedules, st.Points, st.Decisions
		}
		if res.Violating > 0 {
			res.Exhaustive = false
		}
	}
	for o := range outcomes {
		res.Outcomes = append(res.Outcomes, o)
	}
	sort.Strings(res.Outcomes)
	if len(res.Outcomes) > 12 {
		res.Outcomes = append(res.Outcomes[:12], fmt.Sprintf("... (%d distinct)", len(outcomes)))
	}
	// every stored violation must reproduce 5 times
	for _, v := range res.Violations {
		want := issuesKey(v.Issues)
		for i := 0; i < 5; i++ {
			_, is, _ := e3RunOne(sc, v.Choices)
			if issuesKey(is) != want {
				res.Broken = fmt.Sprintf("HARNESS-NONDETERMINISM: schedule %v of %s gave %q, then %q", v.Choices, sc.Name, want, issuesKey(is))
			}
		}
	}
	res.WallS = time.Since(start).Seconds()
	return res
}

// ---------------------------------------------------------------------------------------------
// sharding over worker processes (one controlled execution per process at a time)

var e3Scenarios = map[string]func(tier string) []e3Scenario{}

var e3Tier string

func e3Worker(prop, tier string, idx int, budgetS int) {
	e3Quiet()
	e3Tier = tier
	scs := e3Scenarios[prop](tier)
	res := e3Explore(scs[idx], time.Now().Add(time.Duration(budgetS)*time.Second))
	data, _ := json.Marshal(res)
	os.Stdout.Write(data)
}

// e3RunAll runs every scenario of a property in worker subprocesses and merges the results.
// findingOf maps a violation to a known-finding signature key ("" = none).
func e3RunAll(run *h.Run, findingOf func(v e3Violation) string) []e3Result {
	scs := e3Scenarios[run.Prop](run.Tier)
	budget := 240
	if run.Tier == "thorough" {
		budget = 2400
	}
	if v := os.Getenv("VERIF_E3_BUDGET_S"); v != "" {
		fmt.Sscan(v, &budget)
	}
	results := make([]e3Result, len(scs))
	self, _ := os.Executable()
	var wg sync.WaitGroup
	sem := make(chan struct{}, h.Workers())
	for i := range scs {
		wg.Add(1)
		go func(i int) {
			defer wg.Done()
			sem <- struct{}{}
			defer func() { <-sem }()
			cmd := exec.Command(self, "e3worker", run.Prop, run.Tier, fmt.Sprint(i), fmt.Sprint(budget))
			var out, errb bytes.Buffer
			cmd.Stdout, cmd.Stderr = &out, &errb
			done := make(chan error, 1)
			cmd.Start()
			go func() { done <- cmd.Wait() }()
			select {
			case err := <-done:
				if err != nil {
					results[i] = e3Result{Name: scs[i].Name, Broken: fmt.Sprintf("worker failed: %v: %s", err, tailStr(errb.String(), 2000))}
					return
				}
			case <-time.After(time.Duration(budget+120) * time.Second):
				cmd.Process.Kill()
				results[i] = e3Result{Name: scs[i].Name, Broken: "worker did not finish within its budget (hang in the harness?)"}
				return
			}
			if err := json.Unmarshal(out.Bytes(), &results[i]); err != nil {
				results[i] = e3Result{Name: scs[i].Name, Broken: fmt.Sprintf("worker output unreadable: %v: %s", err, tailStr(out.String()+errb.String(), 2000))}
			}
		}(i)
	}
	wg.Wait()
	var sched, points, decisions, deadlocks int
	exhaustive := true
	per := []map[string]any{}
	minOutcomes := -1
	minShared := -1
	for i, r := range results {
		sched += r.Schedules
		points += r.Points
		decisions += r.Decisions
		deadlocks += r.Deadlocks
		if !r.Exhaustive && r.Violating == 0 {
			exhaustive = false
		}
		if r.Broken != "" {
			run.Broken(r.Name + ": " + r.Broken)
		}
		for _, v := range r.Violations {
			f := ""
			if findingOf != nil {
				f = findingOf(v)
			}
			v.Finding = f
			run.Violate(v.Issues[0].Kind, f, fmt.Sprintf("%s: schedule with %d preemption(s), %d decisions: %s", v.Scenario, v.Preemptions, len(v.Choices), issuesKey(v.Issues)), v, nil)
		}
		if n := len(r.Outcomes); minOutcomes < 0 || n < minOutcomes {
			minOutcomes = n
		}
		per = append(per, map[string]any{"scenario": r.Name, "schedules": r.Schedules, "scheduling_points": r.Points, "decisions": r.Decisions, "bound_completed": r.BoundCompleted,
			"bound_asked": r.BoundAsked, "exhaustive_within_bound": r.Exhaustive, "distinct_outcomes": len(r.Outcomes), "outcomes": r.Outcomes, "max_depth": r.MaxDepth, "violating_executions": r.Violating, "wall_s": r.WallS, "every_interleaving_enumerated_unbounded": r.AllInterleavings > 0, "all_interleavings": r.AllInterleavings,
			"instrumented_locations_touched_by_several_threads": len(r.Shared), "examples_of_shared_locations": firstN(r.Shared, 6)})
		if minShared < 0 || len(r.Shared) < minShared {
			minShared = len(r.Shared)
		}
		if i%5 == 0 && len(r.SampleTrace) > 0 {
			run.Sample(map[string]any{"scenario": r.Name, "default_schedule": r.SampleTrace, "outcomes": r.Outcomes})
		}
	}
	run.Cov["scenarios"] = per
	run.Cov["schedules"] = sched
	addCov(run, "states", points)
	addCov(run, "transitions", decisions)
	addCov(run, "traces_validated_against_impl", sched)
	addCov(run, "evaluations", sched)
	run.Cov["deadlocked_executions"] = deadlocks
	if prev, ok := run.Cov["exhaustive"].(bool); ok {
		exhaustive = exhaustive && prev
	}
	run.Cov["exhaustive"] = exhaustive
	unb := 0
	for _, r := range results {
		if r.AllInterleavings > 0 {
			unb++
		}
	}
	run.Cov["scenarios_explored_without_any_bound"] = unb
	run.Cov["scenarios_total"] = len(results)
	run.Cov["min_distinct_outcomes_per_scenario"] = minOutcomes
	run.Cov["min_shared_locations_per_scenario"] = minShared
	run.Cov["vacuity_guard"] = "every scenario lists the instrumented locations touched by more than one thread (threads that share nothing cannot collide); distinct outcomes per scenario are listed too - for purity properties a single outcome is the expected result"
	if data, err := os.ReadFile(os.Getenv("VERIF_INSTR_REPORT")); err == nil {
		var rep map[string]any
		if json.Unmarshal(data, &rep) == nil {
			run.Cov["instrumentation"] = map[string]any{"field_reads": rep["field_reads_instrumented"], "field_writes": rep["field_writes_instrumented"],
				"channel_points": rep["channel_scheduling_points"], "owned_map_ranges": rep["owned_map_ranges"], "unowned_map_ranges": rep["unowned_map_ranges"],
				"time_or_random_imports": rep["time_or_random_imports"], "locations": lenOf(rep["instrumented_locations"])}
		}
	}
	e3FreeRun(run)
	return results
}

// e3FreeRun is the supplementary free-running pass: the same scenario bodies as plain goroutines
// on the UNINSTRUMENTED package in a -race build. It can only add violations, never a pass.
func e3FreeRun(run *h.Run) {
	bin := os.Getenv("VERIF_RACE_BIN")
	if bin == "" || freeruns[run.Prop] == nil {
		run.Cov["free_running_race_pass"] = "not run"
		return
	}
	iters := 60
	if run.Tier == "thorough" {
		iters = 1500
	}
	cmd := exec.Command(bin, "freerun", run.Prop, fmt.Sprint(iters))
	cmd.Env = append(os.Environ(), "GORACE=halt_on_error=1")
	var ob bytes.Buffer
	cmd.Stdout, cmd.Stderr = &ob, &ob
	cmd.Start()
	done := make(chan error, 1)
	go func() { done <- cmd.Wait() }()
	var err error
	limit := 300 * time.Second
	if run.Tier == "thorough" {
		limit = 1800 * time.Second
	}
	select {
	case err = <-done:
	case <-time.After(limit):
		// safety net only, never a verdict: uncontrolled goroutines can hang (e.g. on a leaked lock,
		// which the controlled exploration reports deterministically as a deadlock)
		cmd.Process.Kill()
		run.Cov["free_running_race_pass"] = "did not finish within its safety limit; killed (no verdict)"
		return
	}
	text := ob.String()
	run.Cov["free_running_race_pass"] = map[string]any{"iterations_per_scenario": iters, "data_race_reported": strings.Contains(text, "DATA RACE")}
	if strings.Contains(text, "DATA RACE") {
		i := strings.Index(text, "WARNING: DATA RACE")
		msg := text[i:]
		var lines []string
		for _, l := range strings.Split(msg, "\n") {
			l = strings.TrimSpace(l)
			if strings.HasPrefix(l, "github.com/emicklei/go-restful") || strings.HasPrefix(l, "Write at") || strings.HasPrefix(l, "Read at") || strings.HasPrefix(l, "Previous") {
				lines = append(lines, l)
			}
			if len(lines) >= 8 {
				break
			}
		}
		run.Violate("race(free-running)", "", "Go race detector on the uninstrumented package: "+strings.Join(lines, " | "),
			map[string]any{"reproduce": fmt.Sprintf("go build -race -o /tmp/vr ./cmd/vcheck && GORACE=halt_on_error=1 /tmp/vr freerun %s %d", run.Prop, iters), "report": tailStr(msg, 6000)}, nil)
	} else if err != nil {
		run.Broken(fmt.Sprintf("free-running pass failed: %v: %s", err, tailStr(text, 1500)))
	}
}

// e3Merge runs the concurrent part of a mixed (E1/E2 + E3) check and adds its coverage.
func e3Merge(run *h.Run) {
	e3RunAll(run, nil)
	addCov(run, "distinct_nontrivial", toInt(run.Cov["schedules"]))
}

func toInt(v any) int {
	switch x := v.(type) {
	case int:
		return x
	case int64:
		return int(x)
	}
	return 0
}

func addCov(run *h.Run, key string, n int) {
	run.Cov[key] = toInt(run.Cov[key]) + n
}

func firstN(l []string, n int) []string {
	if len(l) > n {
		return l[:n]
	}
	return l
}

func lenOf(v any) int {
	if l, ok := v.([]any); ok {
		return len(l)
	}
	return 0
}

func tailStr(s string, n int) string {
	if len(s) > n {
		return s[len(s)-n:]
	}
	return s
}

// e3Replay re-executes a stored schedule.
func e3Replay(prop string) replayFn {
	return func(detail json.RawMessage) error {
		var v e3Violation
		if err := json.Unmarshal(detail, &v); err != nil {
			return err
		}
		e3Quiet()
		for _, tier := range []string{"quick", "thorough"} {
			for _, sc := range e3Scenarios[prop](tier) {
				if sc.Name == v.Scenario {
					e3RestoreGlobals()
					sc.New() // throw-away instance, as in e3Explore
					x, issues, out := e3RunOne(sc, v.Choices)
					for i, t := range x.Trace {
						fmt.Printf("  %3d %s\n", i, t)
					}
					fmt.Printf("outcome: %s\n", out)
					if len(issues) > 0 {
						return fmt.Errorf("%s", issuesKey(issues))
					}
					return nil
				}
			}
		}
		return fmt.Errorf("scenario %q not found", v.Scenario)
	}
}

func init() {
	pt = vsched.Pt
	subcommands["e3worker"] = func(args []string) {
		var idx, budget int
		fmt.Sscan(args[2], &idx)
		fmt.Sscan(args[3], &budget)
		e3Worker(args[0], args[1], idx, budget)
	}
}
