package main

import (
	"bytes"
	"compress/gzip"
	"compress/zlib"
	"encoding/json"
	"fmt"
	"io"
	"net/http"
	"os"
	"os/exec"
	"sort"
	"strings"

	restful "github.com/emicklei/go-restful/v3"

	"verif/harness/h"
	"verif/harness/rs"
)

func init() {
	subcommands["c19worker"] = c19Worker
	register("C19", checkC19, replayC19)
	freeruns["C19"] = freerunC19
}

type c19Cfg struct {
	Kind string `json:"kind"` // plain, filters, cors, options, encoding
	JSR  bool   `json:"jsr311"`
	// Once: the router is set only once (the reference containers; the containers under test set
	// the other router first)
	Once bool `json:"-"`
}

func (c c19Cfg) ref() c19Cfg { c.Once = true; return c }

var c19Kinds = []string{"plain", "filters", "cors", "options", "encoding"}

type c19Ent struct{ A string }

const c19Patch = "application/json-patch+json"

func sortedKV(m map[string]string) string {
	var s []string
	for k, v := range m {
		s = append(s, k+"="+v)
	}
	sort.Strings(s)
	return strings.Join(s, ",")
}

// c19Ledger is the ledger provider of the most recently built "encoding" configuration.
var c19Ledger *ledger

// c19Build builds a container for a configuration. The handler echoes path parameters, the
// attribute a filter derived from a request header, and the selected route.
func c19Build(cfg c19Cfg) *restful.Container {
	c := restful.NewContainer()
	// the router is always set twice: the other one first (what it leaves behind must not matter)
	if cfg.JSR {
		if !cfg.Once {
			c.Router(restful.CurlyRouter{})
		}
		c.Router(restful.RouterJSR311{})
	} else {
		if !cfg.Once {
			c.Router(restful.RouterJSR311{})
		}
		c.Router(restful.CurlyRouter{})
	}
	// every configuration: a container filter that turns request headers into attributes - one
	// always, one only when its header is present - and reports the optional one back
	c.Filter(func(req *restful.Request, resp *restful.Response, chain *restful.FilterChain) {
		pt("filter.enter")
		if v := req.Request.Header.Get("X-Opt"); v != "" {
			req.SetAttribute("opt", v)
		}
		resp.Header().Set("X-Opt-Seen", fmt.Sprint(req.Attribute("opt")))
		req.SetAttribute("who", req.Request.Header.Get("X-Who"))
		chain.ProcessFilter(req, resp)
		pt("filter.exit")
	})
	logging := func(name string) restful.FilterFunction {
		return func(req *restful.Request, resp *restful.Response, chain *restful.FilterChain) {
			pt("filter.enter")
			resp.Header().Add("X-Seen", name+":"+req.SelectedRoutePath())
			chain.ProcessFilter(req, resp)
			pt("filter.exit")
		}
	}
	switch cfg.Kind {
	case "filters":
		c.Filter(logging("c1"))
		c.Filter(logging("c2")) // three container filters: len 3, cap 4
	case "cors":
		cors := restful.CrossOriginResourceSharing{AllowedDomains: []string{corsE1}, AllowedHeaders: []string{"X-A"}, CookiesAllowed: true, Container: c}
		c.Filter(cors.Filter)
	case "options":
		c.Filter(c.OPTIONSFilter)
	case "encoding":
		c.EnableContentEncoding(true)
		c19Ledger = newLedger(restful.NewBoundedCachedCompressors(1, 1))
		restful.SetCompressorProvider(c19Ledger)
	}
	ws := new(restful.WebService).Path("/api")
	ws.SetDynamicRoutes(true) // the route list is then read through the locking, copying accessor
	if cfg.Kind == "filters" {
		ws.Filter(logging("s"))
	}
	echo := func(id string) restful.RouteFunction {
		return func(req *restful.Request, resp *restful.Response) {
			pt("handler.enter")
			before := fmt.Sprintf("route=%s params=%s who=%v sel=%s", id, sortedKV(req.PathParameters()), req.Attribute("who"), req.SelectedRoutePath())
			pt("handler.mid")
			after := fmt.Sprintf("route=%s params=%s who=%v sel=%s", id, sortedKV(req.PathParameters()), req.Attribute("who"), req.SelectedRoutePath())
			io.WriteString(resp, before)
			if before != after {
				io.WriteString(resp, " CHANGED-UNDERFOOT "+after)
			}
		}
	}
	// conditions are scheduling points inside route selection (under the container's read lock)
	cond := func(*http.Request) bool { pt("condition"); return true }
	item := ws.GET("/item/{id}").If(cond).To(echo("item"))
	if cfg.Kind == "filters" {
		item.Filter(logging("r"))
	}
	ws.Route(item)
	// registered PUT before GET: the Allow header of a 405 lists them in this order
	ws.Route(ws.PUT("/other/{name}").If(cond).To(echo("other-put")))
	ws.Route(ws.GET("/other/{name}").If(cond).To(echo("other")))
	// a route function that panics; the container recovers with its default recover handler
	c.DoNotRecover(false)
	ws.Route(ws.GET("/boom/{why}").To(func(req *restful.Request, resp *restful.Response) {
		pt("handler.enter")
		panic("boom-" + req.PathParameter("why") + "-" + fmt.Sprint(req.Attribute("who")))
	}))
	// templates beyond literals and plain variables: a regular expression, a custom verb (CurlyRouter
	// documents it; RouterJSR311 treats the text literally), a tail wildcard
	ws.Route(ws.GET("/re/{n:[0-9]+}").To(echo("re")))
	ws.Route(ws.GET("/verb/{id}:go").To(echo("verb")))
	ws.Route(ws.GET("/verb/{id}:stop").To(echo("verb-stop")))
	ws.Route(ws.GET("/files/{t:*}").To(echo("files")))
	// an entity negotiated between two representations
	ws.Route(ws.GET("/ent").Produces(restful.MIME_XML, restful.MIME_JSON).To(func(req *restful.Request, resp *restful.Response) {
		pt("handler.enter")
		resp.WriteEntity(c19Ent{"negotiated who=" + fmt.Sprint(req.Attribute("who"))})
	}))
	ws.Route(ws.POST("/item").To(func(req *restful.Request, resp *restful.Response) {
		var v c19Ent
		if err := req.ReadEntity(&v); err != nil {
			resp.WriteErrorString(400, err.Error())
			return
		}
		io.WriteString(resp, "posted "+v.A+" who="+fmt.Sprint(req.Attribute("who"))+" sel="+req.SelectedRoutePath())
	}))
	ws.Route(ws.GET("/nest/{id}").To(func(req *restful.Request, resp *restful.Response) {
		before := fmt.Sprintf("params=%s who=%v sel=%s", sortedKV(req.PathParameters()), req.Attribute("who"), req.SelectedRoutePath())
		inner := h.NewRec()
		c.Dispatch(inner, (h.Req{Method: "GET", Segs: []string{"api", "other", "zz"}, Hdr: [][2]string{{"X-Who", "inner"}}}).HTTP())
		after := fmt.Sprintf("params=%s who=%v sel=%s", sortedKV(req.PathParameters()), req.Attribute("who"), req.SelectedRoutePath())
		io.WriteString(resp, "nest "+before+" inner=["+inner.Buf.String()+"]")
		if before != after {
			io.WriteString(resp, " CHANGED-BY-NESTED-DISPATCH "+after)
		}
	}))
	c.Add(ws)
	// a second service with its own service filter
	ws2 := new(restful.WebService).Path("/b")
	if cfg.Kind == "filters" {
		ws2.Filter(logging("s2"))
	}
	ws2.Route(ws2.GET("/thing/{tid}").If(cond).To(echo("thing")))
	c.Add(ws2)
	// a service whose root path has a variable
	ws3 := new(restful.WebService).Path("/t/{tenant}")
	ws3.Route(ws3.GET("/items/{id}").If(cond).To(echo("tenant-item")))
	c.Add(ws3)
	// a custom entity writer whose media type contains the name of a built-in one
	restful.RegisterEntityAccessor(c19Patch, restful.NewEntityAccessorJSON(c19Patch))
	ws.Route(ws.GET("/patch").Produces(c19Patch).To(func(req *restful.Request, resp *restful.Response) {
		pt("handler.enter")
		resp.WriteEntity(c19Ent{"patch who=" + fmt.Sprint(req.Attribute("who"))})
	}))
	// media type lists that share their backing arrays, the way an application that keeps its
	// types in one slice declares them: the service default, a route that overrides it with a
	// shorter re-slice, a sibling on the same path and method with another type, a route that inherits
	types := []string{restful.MIME_JSON, restful.MIME_XML}
	ws4 := new(restful.WebService).Path("/n").Produces(types...)
	ws4.Route(ws4.GET("/doc").Produces(types[:1]...).To(echo("doc-json")))
	ws4.Route(ws4.GET("/doc").Produces("text/csv").To(echo("doc-csv")))
	ws4.Route(ws4.GET("/inherit").To(echo("inherit")))
	c.Add(ws4)
	// a plain http.Handler behind the container filters
	c.HandleWithFilter("/hwf/", http.HandlerFunc(func(w http.ResponseWriter, r *http.Request) {
		pt("plain.handler")
		io.WriteString(w, "plain "+r.URL.Path+" who="+r.Header.Get("X-Who"))
	}))
	return c
}

// the request set Q
func c19Q() []h.Req {
	return []h.Req{
		{Method: "GET", Segs: []string{"api", "item", "1"}, Hdr: [][2]string{{"X-Who", "alice"}, {"Accept-Encoding", "gzip"}}},
		{Method: "GET", Segs: []string{"api", "item", "2"}, Hdr: [][2]string{{"X-Who", "bob"}, {"Accept-Encoding", "deflate"}}},
		{Method: "POST", Segs: []string{"api", "item"}, Hdr: [][2]string{{"Content-Type", "application/json"}, {"X-Who", "poster"}}, Body: `{"A":"entity-value"}`},
		{Method: "GET", Segs: []string{"api", "nope"}, Hdr: [][2]string{{"X-Who", "nobody"}, {"X-Opt", "only-this-request"}}},
		{Method: "DELETE", Segs: []string{"api", "item", "1"}, Hdr: [][2]string{{"X-Who", "deleter"}}},
		{Method: "OPTIONS", Segs: []string{"api", "item", "1"}, Hdr: [][2]string{{"Origin", corsE1}, {"Access-Control-Request-Method", "GET"}, {"Access-Control-Request-Headers", "X-A"}}},
		{Method: "GET", Segs: []string{"api", "nest", "9"}, Hdr: [][2]string{{"X-Who", "carol"}}},
		{Method: "GET", Segs: []string{"api", "other", "n"}, Hdr: [][2]string{{"X-Who", "dave"}, {"Origin", corsE1}}},
		{Method: "OPTIONS", Segs: []string{"api", "other", "n"}, Hdr: [][2]string{{"Origin", corsE1}, {"Access-Control-Request-Method", "PUT"}}},
		{Method: "DELETE", Segs: []string{"api", "other", "n"}, Hdr: [][2]string{{"X-Who", "erin"}}},
		{Method: "GET", Segs: []string{"b", "thing", "5"}, Hdr: [][2]string{{"X-Who", "frank"}}},
		{Method: "GET", Segs: []string{"hwf", "file"}, Hdr: [][2]string{{"X-Who", "gina"}}},
		// two Accept headers that differ only in letter case (and so in meaning: parameter names are
		// matched exactly by the negotiation code)
		{Method: "GET", Segs: []string{"api", "ent"}, Hdr: [][2]string{{"X-Who", "hal"}, {"Accept", "application/xml;Q=0.1, application/json"}}},
		{Method: "GET", Segs: []string{"api", "ent"}, Hdr: [][2]string{{"X-Who", "ivy"}, {"Accept", "application/xml;q=0.1, application/json"}}},
		{Method: "GET", Segs: []string{"api", "ent"}, Hdr: [][2]string{{"X-Who", "jo"}, {"Accept", "application/xml"}}},
		{Method: "GET", Segs: []string{"api", "re", "42"}, Hdr: [][2]string{{"X-Who", "kim"}}},
		{Method: "GET", Segs: []string{"api", "verb", "7:go"}, Hdr: [][2]string{{"X-Who", "lou"}}},
		{Method: "GET", Segs: []string{"api", "files", "a", "b.txt"}, Hdr: [][2]string{{"X-Who", "max"}}},
		{Method: "GET", Segs: []string{"api", "boom", "one"}, Hdr: [][2]string{{"X-Who", "nat"}}},
		{Method: "GET", Segs: []string{"api", "boom", "two"}, Hdr: [][2]string{{"X-Who", "oz"}}},
		{Method: "GET", Segs: []string{"t", "acme", "items", "1"}, Hdr: [][2]string{{"X-Who", "pat"}}},
		{Method: "GET", Segs: []string{"t", "globex", "items", "2"}, Hdr: [][2]string{{"X-Who", "quin"}}},
		// a q value that does not parse: how it is treated is nobody's business here, but it must not
		// depend on trace logging or on other requests
		{Method: "GET", Segs: []string{"api", "ent"}, Hdr: [][2]string{{"X-Who", "rae"}, {"Accept", "application/xml;q=high, application/json;q=0"}}},
		{Method: "GET", Segs: []string{"api", "verb", "7:stop"}, Hdr: [][2]string{{"X-Who", "sam"}}},
		// the custom entity type; a request no sibling route can satisfy (406); a route that inherits the service's types
		{Method: "GET", Segs: []string{"api", "patch"}, Hdr: [][2]string{{"X-Who", "tia"}, {"Accept", c19Patch}}},
		{Method: "GET", Segs: []string{"n", "doc"}, Hdr: [][2]string{{"X-Who", "uma"}, {"Accept", "text/plain"}}},
		{Method: "GET", Segs: []string{"n", "inherit"}, Hdr: [][2]string{{"X-Who", "val"}, {"Accept", "application/xml"}}},
	}
}

// c19Key renders a recorded response: status, framework-decided headers, decoded body.
func c19Key(rec *h.Rec) string {
	hd := rec.Result()
	body := rec.Buf.Bytes()
	enc := hd.Get("Content-Encoding")
	dec := string(body)
	switch enc {
	case "gzip":
		if zr, err := gzip.NewReader(bytes.NewReader(body)); err == nil {
			b, err := io.ReadAll(zr)
			dec = string(b)
			if err != nil {
				dec += " <gzip error: " + err.Error() + ">"
			}
		} else {
			dec = "<bad gzip: " + err.Error() + ">"
		}
	case "deflate":
		if zr, err := zlib.NewReader(bytes.NewReader(body)); err == nil {
			b, err := io.ReadAll(zr)
			dec = string(b)
			if err != nil {
				dec += " <zlib error: " + err.Error() + ">"
			}
		} else {
			dec = "<bad zlib: " + err.Error() + ">"
		}
	}
	if rec.Code == 500 {
		// the default recover handler appends a stack trace whose frames depend on who called the
		// container: the first line (which names the panic value) is what is compared
		if i := strings.IndexAny(dec, "\r\n"); i >= 0 {
			dec = dec[:i]
		}
	}
	var keys []string
	for k := range hd {
		keys = append(keys, k)
	}
	sort.Strings(keys)
	var sb strings.Builder
	fmt.Fprintf(&sb, "%d %q", rec.Code, dec)
	for _, k := range keys {
		vals := hd[k] // verbatim, including the order of the methods in Allow
		fmt.Fprintf(&sb, " %s=%q", k, vals)
	}
	return sb.String()
}

func c19Do(c *restful.Container, q h.Req, serve bool) string {
	rec := h.NewRec()
	if serve {
		c.ServeHTTP(rec, q.HTTP())
	} else {
		c.Dispatch(rec, q.HTTP())
	}
	return c19Key(rec)
}

type c19Case struct {
	Cfg   c19Cfg `json:"cfg"`
	Seq   []int  `json:"sequence"` // indices into Q; the last one is judged
	Serve bool   `json:"serve_http"`
	Trace bool   `json:"trace"`
	Got   string `json:"got"`
	Want  string `json:"fresh"`
}

func replayC19(detail json.RawMessage) error {
	var c c19Case
	if err := json.Unmarshal(detail, &c); err != nil || len(c.Seq) == 0 {
		if e3ReplayHook != nil {
			return e3ReplayHook("C19", detail)
		}
		return fmt.Errorf("not a sequential case")
	}
	rs.Quiet(false)
	cleanPackageState()
	rs.Quiet(c.Trace)
	q := c19Q()
	w := c19Build(c.Cfg)
	got := ""
	for _, i := range c.Seq {
		got = c19Do(w, q[i], c.Serve)
		fmt.Printf("%v -> %s\n", q[i], got)
	}
	cleanPackageState()
	rs.Quiet(false)
	fresh := c19Do(c19Build(c.Cfg.ref()), q[c.Seq[len(c.Seq)-1]], c.Serve)
	fmt.Printf("fresh container (trace off): %s\n", fresh)
	if got != fresh {
		return fmt.Errorf("response depends on history / trace setting")
	}
	return nil
}

func c19Cfgs(tier string) []c19Cfg {
	var out []c19Cfg
	for _, k := range c19Kinds {
		out = append(out, c19Cfg{Kind: k}, c19Cfg{Kind: k, JSR: true})
	}
	return out
}

// c19Shard is the work of one worker process: one configuration x entry point x trace setting.
// Trace and the compressor provider are package-level switches, so a shard owns its process.
type c19ShardOut struct {
	States, Trans int64
	Outcomes      []string
	Issues        []c19Issue
}

type c19Issue struct {
	Class string  `json:"class"`
	Msg   string  `json:"msg"`
	Case  c19Case `json:"case"`
}

// c19Seqs: every sequence of <= 2 requests over all of Q and every sequence of 3 (thorough: 3 over
// all of Q and 4 over the core) over the core of Q (its first 14 requests: one of each kind of
// framework feature; the later ones vary templates and header spellings).
func c19Seqs(tier string, nq int) [][]int {
	const core = 14
	var seqs [][]int
	var rec func(cur []int, n, depth int)
	rec = func(cur []int, n, depth int) {
		if len(cur) == depth {
			seqs = append(seqs, append([]int{}, cur...))
			return
		}
		for i := 0; i < n; i++ {
			rec(append(cur, i), n, depth)
		}
	}
	rec(nil, nq, 1)
	rec(nil, nq, 2)
	if tier == "thorough" {
		rec(nil, nq, 3)
		rec(nil, core, 4)
	} else {
		rec(nil, core, 3)
	}
	return seqs
}

func c19RunShard(tier string, cfg c19Cfg, serve, trace bool) c19ShardOut {
	var out c19ShardOut
	q := c19Q()
	seqs := c19Seqs(tier, len(q))
	bad := func(class, msg string, cs c19Case) {
		if len(out.Issues) < 50 {
			out.Issues = append(out.Issues, c19Issue{class, msg, cs})
		}
	}
	rs.Quiet(false)
	cleanPackageState() // first call: the state every history starts from
	// fresh-container responses with trace off are the reference for everything else
	fresh := make([]string, len(q))
	for i := range q {
		cleanPackageState()
		rs.Quiet(false)
		k := c19Do(c19Build(cfg.ref()), q[i], serve)
		fresh[i] = k
		out.Outcomes = append(out.Outcomes, k)
		if !trace && strings.Contains(k, "CHANGED-") {
			bad("request-state-changed", fmt.Sprintf("%+v ; %v : the handler's own parameters / attributes / selected route changed while it ran: %s", cfg, q[i], k), c19Case{cfg, []int{i}, serve, false, k, ""})
		}
	}
	for _, seq := range seqs {
		cleanPackageState()
		rs.Quiet(trace)
		w := c19Build(cfg)
		got := ""
		for _, i := range seq {
			got = c19Do(w, q[i], serve)
		}
		out.States++
		out.Trans += int64(len(seq))
		if cfg.Kind == "encoding" {
			if ms := c19Ledger.report(true); len(ms) > 0 {
				bad("compressor-ledger", fmt.Sprintf("%+v serve=%v ; after %v : %s", cfg, serve, seq, ms[0]), c19Case{cfg, seq, serve, trace, ms[0], ""})
			}
		}
		last := seq[len(seq)-1]
		if want := fresh[last]; got != want {
			bad("history-dependence", fmt.Sprintf("%+v serve=%v trace=%v ; after %v the request %v is answered %s ; on a fresh container (trace off) %s", cfg, serve, trace, seq[:len(seq)-1], q[last], got, want),
				c19Case{cfg, seq, serve, trace, got, want})
		}
	}
	if !trace {
		// the 1000-fold repetition of each request
		cleanPackageState()
		rs.Quiet(trace)
		w := c19Build(cfg)
		for i := range q {
			got := ""
			for n := 0; n < 1000; n++ {
				got = c19Do(w, q[i], serve)
			}
			out.States++
			out.Trans += 1000
			if want := fresh[i]; got != want {
				bad("thousandth-request", fmt.Sprintf("%+v serve=%v ; the 1000th %v is answered %s ; the first %s", cfg, serve, q[i], got, want), c19Case{cfg, []int{i}, serve, false, got, want})
			}
		}
	}
	rs.Quiet(false)
	return out
}

func lastBytes(s string, n int) string {
	if len(s) > n {
		return s[len(s)-n:]
	}
	return s
}

func c19Worker(args []string) {
	var ci int
	fmt.Sscan(args[1], &ci)
	out := c19RunShard(args[0], c19Cfgs(args[0])[ci], args[2] == "true", args[3] == "true")
	data, _ := json.Marshal(out)
	os.Stdout.Write(data)
}

func checkC19(run *h.Run) {
	q := c19Q()
	depth := "<= 2 over all of Q, 3 over its first 14 requests"
	if run.Tier == "thorough" {
		depth = "<= 3 over all of Q, 4 over its first 14 requests"
	}
	var states, trans int64
	cfgs := c19Cfgs(run.Tier)
	outcomes := h.NewDistinctSet(100000)
	type shard struct {
		ci           int
		serve, trace bool
	}
	var shards []shard
	for _, serve := range []bool{false, true} {
		for _, trace := range []bool{false, true} {
			for ci := range cfgs {
				shards = append(shards, shard{ci, serve, trace})
			}
		}
	}
	self, _ := os.Executable()
	results := make([]c19ShardOut, len(shards))
	h.Parallel(len(shards), func(_, i int) {
		sh := shards[i]
		cmd := exec.Command(self, "c19worker", run.Tier, fmt.Sprint(sh.ci), fmt.Sprint(sh.serve), fmt.Sprint(sh.trace))
		var ob, eb bytes.Buffer
		cmd.Stdout, cmd.Stderr = &ob, &eb
		if err := cmd.Run(); err != nil {
			run.Broken(fmt.Sprintf("worker for %+v failed: %v: %s", sh, err, lastBytes(eb.String(), 1500)))
			return
		}
		if err := json.Unmarshal(ob.Bytes(), &results[i]); err != nil {
			run.Broken(fmt.Sprintf("worker for %+v: output unreadable: %v", sh, err))
		}
	})
	for _, r := range results {
		states += r.States
		trans += r.Trans
		for _, k := range r.Outcomes {
			outcomes.Add(k)
		}
		for _, is := range r.Issues {
			run.Violate(is.Class, "", is.Msg, is.Case, nil)
		}
	}
	rs.Quiet(false)
	for i, k := range outcomes.Keys() {
		if i%5 == 0 {
			run.Sample(map[string]any{"response": k})
		}
	}
	run.Cov["history_states"] = states
	run.Cov["states"] = states
	run.Cov["transitions"] = trans
	run.Cov["traces_validated_against_impl"] = trans
	run.Cov["evaluations"] = trans
	run.Cov["distinct_nontrivial"] = states
	run.Cov["distinct_outcomes"] = outcomes.Len()
	run.Cov["exhaustive"] = true
	run.Cov["rule"] = fmt.Sprintf("E2: configurations {plain, 3 container + service + route filters, CORS with computed methods, OPTIONS filter, encoding with bounded(1) provider} x {CurlyRouter, RouterJSR311} x entry {Dispatch, ServeHTTP} x trace {off, on}: every sequence over the request set Q (%d requests: two GETs on one template, POST entity, 404, 405, CORS preflight, a handler that dispatches a nested request, a second template with other methods incl. its preflight and 405, a second service, a plain handler behind HandleWithFilter, an entity negotiated between XML and JSON under two Accept headers that differ only in letter case and once as XML, routes with a regular-expression variable, two custom verbs and a tail wildcard, two requests whose route function panics (default recover handler), two requests to a service whose root path has a variable, an Accept header with an unparsable q value, an entity of a custom type whose name contains a built-in one, a 406 between two sibling routes whose Produces lists share a backing array with the service default, a route that inherits that default) of length %s on one container, plus the 1000-fold repetition of each request; the last response (status, all headers, decoded body with echoed parameters / attribute / selected route) must equal the response on a fresh container with trace off. E3 (instrumented): every pair (thorough: also triples) of Q concurrently, all schedules within the preemption bound, same oracle per request, happens-before race detection; then the free-running -race pass. Every history is non-trivial.", len(q), depth)
	run.Assume = []string{"every history starts from the same package-level state (restored between histories)", "differential: the fresh-container response is the reference; handlers also self-check that their own view does not change while they run"}
	if f := e3Part["C19"]; f != nil {
		f(run)
	} else {
		run.Cov["concurrent_part"] = "not run (plain build)"
	}
}

func freerunC19(iters int) {
	q := c19Q()
	for _, cfg := range c19Cfgs("quick") {
		for it := 0; it < iters/4+1; it++ {
			w := c19Build(cfg)
			done := make(chan bool)
			for i := range q {
				i := i
				go func() {
					for r := 0; r < 3; r++ {
						c19Do(w, q[i], r%2 == 0)
					}
					done <- true
				}()
			}
			for range q {
				<-done
			}
		}
	}
	fmt.Println("freerun C19 done")
}
