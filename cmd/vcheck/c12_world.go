package main

import (
	"fmt"
	"io"
	"net/http"
	"strings"
	"sync"

	restful "github.com/emicklei/go-restful/v3"

	"verif/harness/h"
)

// pt is a harness-declared scheduling point: a no-op in plain builds, vsched.Pt under E3.
var pt = func(label string) {}

// cleanPackageState puts the package-level variables of the package under test back to their
// values at the first call (instrumented builds; a no-op in plain builds): histories explored one
// after the other in one process must not see what an earlier history left in a process-wide
// cache or pool.
var cleanPackageState = func() {}

// c12World is a fresh container plus the mutations and requests of a scenario.
type c12World struct {
	c    *restful.Container
	muts []func()
	reqs []h.Req
}

type c12Spec struct {
	name     string
	world    func(jsr bool) *c12World
	servers  [][]int // request indices per serving thread
	mutators [][]int // mutation indices per mutating thread
	// untouched lists the requests that address a service and route no mutation of the scenario
	// changes: they must be answered as if no change were happening (as on the initial world)
	untouched []int
	// selfMut: request index -> mutation index that the request's own route function performs
	// (an "admin" route that plugs a service in while it is being served)
	selfMut map[int]int
}

func routeTo(id string) restful.RouteFunction {
	return func(req *restful.Request, resp *restful.Response) {
		pt("handler")
		resp.Header().Set("X-Route", id)
		io.WriteString(resp, id)
	}
}

func newWS(root string, dynamic bool, routes ...string) *restful.WebService {
	ws := new(restful.WebService).Path(root)
	ws.SetDynamicRoutes(dynamic)
	for _, r := range routes {
		// the condition is a scheduling point inside the region where the container lock is read-held
		ws.Route(ws.GET(r).If(func(*http.Request) bool { pt("condition(under RLock)"); return true }).To(routeTo(root + r)))
	}
	return ws
}

func get(segs ...string) h.Req { return h.Req{Method: "GET", Segs: segs} }

func c12Container(jsr bool) *restful.Container {
	c := restful.NewContainer()
	if jsr {
		c.Router(restful.RouterJSR311{})
	}
	return c
}

var c12Specs = []c12Spec{
	{name: "add", untouched: []int{0}, servers: [][]int{{0, 1}}, mutators: [][]int{{0}}, world: func(jsr bool) *c12World {
		c := c12Container(jsr)
		c.Add(newWS("/a", true, "/x"))
		b := newWS("/b", true, "/x")
		return &c12World{c: c, muts: []func(){func() { c.Add(b) }}, reqs: []h.Req{get("a", "x"), get("b", "x")}}
	}},
	{name: "remove", untouched: []int{0}, servers: [][]int{{0, 1}}, mutators: [][]int{{0}}, world: func(jsr bool) *c12World {
		c := c12Container(jsr)
		c.Add(newWS("/a", true, "/x"))
		b := newWS("/b", true, "/x")
		c.Add(b)
		return &c12World{c: c, muts: []func(){func() { c.Remove(b) }}, reqs: []h.Req{get("a", "x"), get("b", "x")}}
	}},
	{name: "remove-beside-root", untouched: []int{0, 1}, servers: [][]int{{0, 1, 2}}, mutators: [][]int{{0}}, world: func(jsr bool) *c12World {
		// a service on the root path that is neither first nor last; one of the others goes away
		c := c12Container(jsr)
		c.Add(newWS("/a", true, "/x"))
		c.Add(newWS("/", true, "/x"))
		c.Add(newWS("/b", true, "/x"))
		d := newWS("/d", true, "/x")
		c.Add(d)
		return &c12World{c: c, muts: []func(){func() { c.Remove(d) }}, reqs: []h.Req{get("b", "x"), get("x"), get("d", "x")}}
	}},
	{name: "options-vs-add", untouched: []int{0, 1}, servers: [][]int{{0, 1, 2}}, mutators: [][]int{{0}}, world: func(jsr bool) *c12World {
		// the OPTIONS filter walks the registered services and their routes while one is added
		c := c12Container(jsr)
		c.Filter(c.OPTIONSFilter)
		c.Add(newWS("/a", true, "/x"))
		b := newWS("/b", true, "/x")
		return &c12World{c: c, muts: []func(){func() { c.Add(b) }}, reqs: []h.Req{{Method: "OPTIONS", Segs: []string{"a", "x"}}, get("a", "x"), {Method: "OPTIONS", Segs: []string{"b", "x"}}}}
	}},
	{name: "options-vs-remove", untouched: []int{0}, servers: [][]int{{0, 1}}, mutators: [][]int{{0}}, world: func(jsr bool) *c12World {
		c := c12Container(jsr)
		c.Filter(c.OPTIONSFilter)
		c.Add(newWS("/a", true, "/x"))
		b := newWS("/b", true, "/x")
		c.Add(b)
		return &c12World{c: c, muts: []func(){func() { c.Remove(b) }}, reqs: []h.Req{{Method: "OPTIONS", Segs: []string{"a", "x"}}, {Method: "OPTIONS", Segs: []string{"b", "x"}}}}
	}},
	{name: "options-vs-unroute", untouched: []int{0, 1}, servers: [][]int{{0, 1}}, mutators: [][]int{{0}}, world: func(jsr bool) *c12World {
		// the OPTIONS filter walks the routes of a service while one of its other routes is removed
		c := c12Container(jsr)
		c.Filter(c.OPTIONSFilter)
		a := newWS("/a", true, "/w", "/y", "/x")
		c.Add(a)
		return &c12World{c: c, muts: []func(){func() { a.RemoveRoute("/a/y", "GET") }}, reqs: []h.Req{{Method: "OPTIONS", Segs: []string{"a", "x"}}, {Method: "OPTIONS", Segs: []string{"a", "w"}}}}
	}},
	{name: "add-from-a-route-function", untouched: []int{2}, servers: [][]int{{0, 1}, {2}}, selfMut: map[int]int{0: 0}, world: func(jsr bool) *c12World {
		// a route function adds a service to the container that is serving it
		c := c12Container(jsr)
		c.Add(newWS("/a", true, "/x"))
		b := newWS("/b", true, "/x")
		add := func() { c.Add(b) }
		admin := new(restful.WebService).Path("/admin")
		admin.Route(admin.GET("/plug").To(func(req *restful.Request, resp *restful.Response) {
			add()
			io.WriteString(resp, "plugged")
		}))
		c.Add(admin)
		return &c12World{c: c, muts: []func(){add}, reqs: []h.Req{get("admin", "plug"), get("b", "x"), get("a", "x")}}
	}},
	{name: "route", untouched: []int{0}, servers: [][]int{{0, 1}}, mutators: [][]int{{0}}, world: func(jsr bool) *c12World {
		c := c12Container(jsr)
		a := newWS("/a", true, "/x")
		c.Add(a)
		c.Add(newWS("/b", true, "/x"))
		return &c12World{c: c, muts: []func(){func() { a.Route(a.GET("/y").To(routeTo("/a/y"))) }}, reqs: []h.Req{get("a", "x"), get("a", "y")}}
	}},
	{name: "unroute", untouched: []int{0}, servers: [][]int{{0, 1}}, mutators: [][]int{{0}}, world: func(jsr bool) *c12World {
		c := c12Container(jsr)
		a := newWS("/a", true, "/w", "/y", "/x")
		c.Add(a)
		return &c12World{c: c, muts: []func(){func() { a.RemoveRoute("/a/y", "GET") }}, reqs: []h.Req{get("a", "x"), get("a", "y")}}
	}},
	{name: "unroute-two-servers", untouched: []int{0}, servers: [][]int{{0}, {1}}, mutators: [][]int{{0}}, world: func(jsr bool) *c12World {
		// two requests read the route list of the same service while one of its routes is removed
		c := c12Container(jsr)
		a := newWS("/a", true, "/w", "/y", "/x")
		c.Add(a)
		return &c12World{c: c, muts: []func(){func() { a.RemoveRoute("/a/y", "GET") }}, reqs: []h.Req{get("a", "x"), get("a", "y")}}
	}},
	{name: "two-unroutes-of-the-only-route", servers: [][]int{{0}}, mutators: [][]int{{0}, {1}}, world: func(jsr bool) *c12World {
		// the second RemoveRoute finds an empty route list
		c := c12Container(jsr)
		a := newWS("/a", true, "/y")
		c.Add(a)
		rm := func() { a.RemoveRoute("/a/y", "GET") }
		return &c12World{c: c, muts: []func(){rm, rm}, reqs: []h.Req{get("a", "y")}}
	}},
	{name: "panicking-condition", servers: [][]int{{0, 1}}, mutators: [][]int{{0}}, world: func(jsr bool) *c12World {
		c := c12Container(jsr)
		c.DoNotRecover(false)
		c.RecoverHandler(func(p interface{}, w http.ResponseWriter) { w.WriteHeader(500) })
		a := newWS("/a", true, "/x")
		a.Route(a.GET("/boom").If(func(*http.Request) bool { panic("condition panics") }).To(routeTo("/a/boom")))
		c.Add(a)
		b := newWS("/b", true, "/x")
		return &c12World{c: c, muts: []func(){func() { c.Add(b) }}, reqs: []h.Req{get("a", "boom"), get("a", "x")}}
	}},
	{name: "churn", untouched: []int{0}, servers: [][]int{{0}, {1}}, mutators: [][]int{{0, 1}}, world: func(jsr bool) *c12World {
		c := c12Container(jsr)
		c.Add(newWS("/a", true, "/x"))
		b := newWS("/b", true, "/x")
		return &c12World{c: c, muts: []func(){func() { c.Add(b) }, func() { c.Remove(b) }}, reqs: []h.Req{get("a", "x"), get("b", "x")}}
	}},
	{name: "two-mutators", servers: [][]int{{0, 1}}, mutators: [][]int{{0}, {1}}, world: func(jsr bool) *c12World {
		c := c12Container(jsr)
		a := newWS("/a", true, "/x")
		c.Add(a)
		b := newWS("/b", true, "/x")
		c.Add(b)
		return &c12World{c: c, muts: []func(){func() { a.Route(a.GET("/y").To(routeTo("/a/y"))) }, func() { c.Remove(b) }}, reqs: []h.Req{get("a", "y"), get("b", "x")}}
	}},
	{name: "two-removes", untouched: []int{0}, servers: [][]int{{0}}, mutators: [][]int{{0}, {1}}, world: func(jsr bool) *c12World {
		c := c12Container(jsr)
		c.Add(newWS("/a", true, "/x"))
		b := newWS("/b", true, "/x")
		d := newWS("/d", true, "/x")
		c.Add(b)
		c.Add(d)
		return &c12World{c: c, muts: []func(){func() { c.Remove(b) }, func() { c.Remove(d) }}, reqs: []h.Req{get("a", "x")}}
	}},
	{name: "removes-beside-a-plain-handler", untouched: []int{0, 1}, servers: [][]int{{0, 1}}, mutators: [][]int{{0, 1}}, world: func(jsr bool) *c12World {
		// a plain handler registered with Handle has to survive every rebuild of the mux
		c := c12Container(jsr)
		c.Handle("/static/", http.HandlerFunc(func(w http.ResponseWriter, r *http.Request) {
			w.Header().Set("X-Route", "static")
			io.WriteString(w, "static")
		}))
		c.Add(newWS("/a", true, "/x"))
		b := newWS("/b", true, "/x")
		d := newWS("/d", true, "/x")
		c.Add(b)
		c.Add(d)
		return &c12World{c: c, muts: []func(){func() { c.Remove(b) }, func() { c.Remove(d) }}, reqs: []h.Req{get("a", "x"), get("static", "f")}}
	}},
	{name: "two-adds", servers: [][]int{{0, 1}}, mutators: [][]int{{0}, {1}}, world: func(jsr bool) *c12World {
		c := c12Container(jsr)
		c.Add(newWS("/a", true, "/x"))
		b := newWS("/b", true, "/x")
		d := newWS("/d", true, "/x")
		return &c12World{c: c, muts: []func(){func() { c.Add(b) }, func() { c.Add(d) }}, reqs: []h.Req{get("b", "x"), get("d", "x")}}
	}},
	{name: "add-vs-remove", servers: [][]int{{0, 1}}, mutators: [][]int{{0}, {1}}, world: func(jsr bool) *c12World {
		c := c12Container(jsr)
		c.Add(newWS("/a", true, "/x"))
		b := newWS("/b", true, "/x")
		c.Add(b)
		d := newWS("/d", true, "/x")
		return &c12World{c: c, muts: []func(){func() { c.Add(d) }, func() { c.Remove(b) }}, reqs: []h.Req{get("d", "x"), get("b", "x")}}
	}},
	{name: "route-and-unroute", servers: [][]int{{0, 1}}, mutators: [][]int{{0, 1}}, world: func(jsr bool) *c12World {
		c := c12Container(jsr)
		a := newWS("/a", true, "/x", "/y")
		c.Add(a)
		return &c12World{c: c, muts: []func(){func() { a.Route(a.GET("/z").To(routeTo("/a/z"))) }, func() { a.RemoveRoute("/a/y", "GET") }}, reqs: []h.Req{get("a", "y"), get("a", "z")}}
	}},
	{name: "route-vs-unroute", untouched: []int{2}, servers: [][]int{{0, 1, 2}}, mutators: [][]int{{0}, {1}}, world: func(jsr bool) *c12World {
		// one goroutine adds a route while another removes a different route of the same service:
		// neither update may be lost (the final probes ask for both)
		c := c12Container(jsr)
		a := newWS("/a", true, "/x", "/y")
		c.Add(a)
		return &c12World{c: c, muts: []func(){func() { a.Route(a.GET("/z").To(routeTo("/a/z"))) }, func() { a.RemoveRoute("/a/y", "GET") }}, reqs: []h.Req{get("a", "y"), get("a", "z"), get("a", "x")}}
	}},
	{name: "two-routes", untouched: []int{2}, servers: [][]int{{0, 1, 2}}, mutators: [][]int{{0}, {1}}, world: func(jsr bool) *c12World {
		c := c12Container(jsr)
		a := newWS("/a", true, "/x")
		c.Add(a)
		return &c12World{c: c, muts: []func(){func() { a.Route(a.GET("/z").To(routeTo("/a/z"))) }, func() { a.Route(a.GET("/y").To(routeTo("/a/y"))) }}, reqs: []h.Req{get("a", "y"), get("a", "z"), get("a", "x")}}
	}},
	{name: "route-inheriting-mime-types", untouched: []int{0}, servers: [][]int{{0, 1}}, mutators: [][]int{{0}}, world: func(jsr bool) *c12World {
		// Consumes / Produces are declared on the WebService and inherited by its routes; a further
		// inheriting route is added while a sibling is being negotiated
		c := c12Container(jsr)
		a := new(restful.WebService).Path("/a").Consumes(restful.MIME_JSON, restful.MIME_XML).Produces(restful.MIME_JSON, restful.MIME_XML)
		a.SetDynamicRoutes(true)
		a.Route(a.GET("/x").To(routeTo("/a/x")))
		a.Route(a.POST("/x").To(routeTo("POST /a/x")))
		c.Add(a)
		withTypes := func(q h.Req) h.Req {
			q.Hdr = append(q.Hdr, [2]string{"Accept", restful.MIME_XML}, [2]string{"Content-Type", restful.MIME_XML})
			return q
		}
		return &c12World{c: c, muts: []func(){func() { a.Route(a.GET("/y").To(routeTo("/a/y"))) }}, reqs: []h.Req{withTypes(get("a", "x")), withTypes(get("a", "y"))}}
	}},
}

func respKey(rec *h.Rec) string {
	hd := rec.Result()
	return fmt.Sprintf("%d/%s/%v", rec.Code, hd.Get("X-Route"), h.SetOf(strings.Join(hd["Allow"], ",")))
}

func c12Do(c *restful.Container, serve bool, q h.Req) string {
	rec := h.NewRec()
	hr := q.HTTP()
	if serve {
		c.ServeHTTP(rec, hr)
	} else {
		c.Dispatch(rec, hr)
	}
	return respKey(rec)
}

// freerunC12 runs the C12 scenario bodies as plain goroutines on the uninstrumented package; the
// binary is built with -race, so any unsynchronised access (also element-level ones the
// field-granular detector of E3 cannot see) is reported by the Go race detector.
func freerunC12(iters int) {
	for _, sp := range c12Specs {
		if sp.name == "panicking-condition" {
			continue // nothing to race on; with a leaked lock uncontrolled goroutines would just hang
		}
		for _, jsr := range []bool{false, true} {
			for _, serve := range []bool{true, false} {
				for it := 0; it < iters; it++ {
					w := sp.world(jsr)
					var wg sync.WaitGroup
					for _, reqs := range sp.servers {
						reqs := reqs
						wg.Add(1)
						go func() {
							defer wg.Done()
							rounds := 3
							if len(sp.selfMut) > 0 {
								rounds = 1 // its route function adds a service: once per container
							}
							for k := 0; k < rounds; k++ {
								for _, ri := range reqs {
									c12Do(w.c, serve, w.reqs[ri])
								}
							}
						}()
					}
					for _, ms := range sp.mutators {
						ms := ms
						wg.Add(1)
						go func() {
							defer wg.Done()
							for _, mi := range ms {
								w.muts[mi]()
							}
						}()
					}
					wg.Wait()
				}
			}
		}
	}
	fmt.Println("freerun C12 done")
}

func init() { freeruns["C12"] = freerunC12 }
