//go:build verif

package main

import (
	"fmt"
	"strings"

	"github.com/emicklei/go-restful/v3/zverif/vsched"

	"verif/harness/h"
)

func init() {
	e3Scenarios["C06"] = c06Scenarios
	e3Part["C06"] = func(run *h.Run) { e3Merge(run) }
}

func c06Scenarios(tier string) []e3Scenario {
	var out []e3Scenario
	sets := [][]string{{"one", "two"}, {"one", "one"}, {"one", "404"}, {"two", "plain"}, {"405", "two"}, {"plain", "plain"}}
	bound := 2
	if tier == "thorough" {
		sets = append(sets, []string{"one", "two", "one"}, []string{"one", "two", "404"}, []string{"two", "plain", "405"})
		bound = 3
	}
	for ci, cfg := range c06E3Cfgs {
		for _, kinds := range sets {
			cfg, kinds := cfg, kinds
			b := bound
			if len(kinds) == 3 {
				b = 2
			}
			out = append(out, e3Scenario{Name: fmt.Sprintf("cfg%d/%s", ci, strings.Join(kinds, "+")), Bound: b, New: func() *e3Inst {
				w := c06Build(cfg)
				inst := &e3Inst{}
				for i, k := range kinds {
					k := k
					rid := fmt.Sprint("q", i)
					hr := c06Req(k, rid).HTTP()
					rec := h.NewRec()
					inst.Bodies = append(inst.Bodies, vsched.Body{Name: k, Run: func() {
						if k == "plain" {
							w.c.ServeHTTP(rec, hr)
						} else {
							w.c.Dispatch(rec, hr)
						}
					}})
				}
				inst.Check = func(x *vsched.Execution) []e3Issue {
					var out []e3Issue
					for i, k := range kinds {
						if why := judgeC06(cfg, k, w.lg.get(fmt.Sprint("q", i))); why != "" {
							out = append(out, e3Issue{"oracle:filter-chain", fmt.Sprintf("%v: concurrent request %d (%s): %s", cfg, i, k, why)})
						}
					}
					return out
				}
				inst.Outcome = func() string { return fmt.Sprint(len(w.lg.get("q0")), len(w.lg.get("q1")), len(w.lg.get("q2"))) }
				return inst
			}})
		}
	}
	return out
}
