package main

import (
	"fmt"
	"strings"
	"sync/atomic"

	"verif/harness/h"
	rm "verif/harness/refmodel"
	"verif/harness/rs"
)

func init() { register("C03", checkC03, replayRouting(replayC03)) }

// perms returns all permutations of 0..n-1.
func perms(n int) [][]int {
	if n <= 1 {
		return [][]int{identityN(n)}
	}
	var out [][]int
	var rec func(cur []int, used []bool)
	rec = func(cur []int, used []bool) {
		if len(cur) == n {
			out = append(out, append([]int{}, cur...))
			return
		}
		for i := 0; i < n; i++ {
			if !used[i] {
				used[i] = true
				rec(append(cur, i), used)
				used[i] = false
			}
		}
	}
	rec(nil, make([]bool, n))
	return out
}

func identityN(n int) []int {
	p := make([]int, n)
	for i := range p {
		p[i] = i
	}
	return p
}

// buildOrders: every permutation of the Add order × every permutation of the Route order
// within each service.
func buildOrders(t rm.Table) []rs.BuildOpt {
	var out []rs.BuildOpt
	routePerms := [][][]int{{}}
	for _, s := range t.Svcs {
		var next [][][]int
		for _, partial := range routePerms {
			for _, p := range perms(len(s.Routes)) {
				next = append(next, append(append([][]int{}, partial...), p))
			}
		}
		routePerms = next
	}
	for _, sp := range perms(len(t.Svcs)) {
		for _, rp := range routePerms {
			out = append(out, rs.BuildOpt{SvcOrder: sp, RouteOrder: rp})
		}
	}
	return out
}

// wideDistinct (W2): one service /r with the 16 four-segment templates in which each position is
// its literal (a, b, c, d) or a variable, one route each - all GET, or POST for the templates
// with three or more literals (so that the most specific candidates are not eligible for a GET).
func wideDistinct() tableGen {
	lits := []string{"a", "b", "c", "d"}
	mk := func(postAbove int) rm.Table {
		var routes []rm.RouteDecl
		for mask := 0; mask < 16; mask++ {
			sub, n := "", 0
			for i, l := range lits {
				if mask&(1<<i) != 0 {
					sub += "/" + l
					n++
				} else {
					sub += fmt.Sprintf("/{p%d}", i)
				}
			}
			m := "GET"
			if n >= postAbove {
				m = "POST"
			}
			routes = append(routes, rm.RouteDecl{ID: mask, Method: m, Sub: sub})
		}
		return rm.Table{Svcs: []rm.SvcDecl{{Root: "/r", Routes: routes}}}
	}
	tabs := []rm.Table{mk(5), mk(3), mk(2)}
	return tableGen{len(tabs), func(i int) rm.Table { return tabs[i] }}
}

// ordersC03: the registration orders explored for a table. Small tables: all of them. The wide
// tables of W2 (16 routes): the 128 affine orders i -> (i*stride+offset) mod 16 (every odd stride x
// every offset) and their reversals.
func ordersC03(sweepName string, t rm.Table) []rs.BuildOpt {
	if sweepName != "W2" {
		return buildOrders(t)
	}
	n := len(t.Svcs[0].Routes)
	var out []rs.BuildOpt
	for stride := 1; stride < n; stride += 2 {
		for off := 0; off < n; off++ {
			fw, bw := make([]int, n), make([]int, n)
			for i := range fw {
				fw[i] = (i*stride + off) % n
				bw[n-1-i] = fw[i]
			}
			out = append(out, rs.BuildOpt{SvcOrder: []int{0}, RouteOrder: [][]int{fw}}, rs.BuildOpt{SvcOrder: []int{0}, RouteOrder: [][]int{bw}})
		}
	}
	return out
}

// excludedC03 implements the property's exclusions: (method, template) pairs must be distinct,
// no two roots with the same literal/variable shape, no two same-method routes whose templates
// differ only in variable names. RouterJSR311: literal root paths only.
func excludedC03(p *rm.Parsed, r rm.Router) bool {
	for i := range p.Roots {
		if r == rm.JSR311 {
			for _, t := range p.Roots[i] {
				if t.Kind != rm.Lit {
					return true
				}
			}
		}
		for j := i + 1; j < len(p.Roots); j++ {
			if rm.SameShapeRoot(p.Roots[i], p.Roots[j]) {
				return true
			}
		}
	}
	type ref struct{ si, ri int }
	var all []ref
	for si := range p.T.Svcs {
		for ri := range p.T.Svcs[si].Routes {
			all = append(all, ref{si, ri})
		}
	}
	for i := range all {
		for j := i + 1; j < len(all); j++ {
			a, b := all[i], all[j]
			if p.T.Svcs[a.si].Routes[a.ri].Method != p.T.Svcs[b.si].Routes[b.ri].Method {
				continue
			}
			if rm.DiffersOnlyInVarNames(p.Full[a.si][a.ri], p.Full[b.si][b.ri]) {
				return true
			}
		}
	}
	return false
}

func c03Sweeps(r rm.Router, tier string) []sweep {
	us := rs.PathUniverse(r, tier, true)
	if r == rm.Curly {
		us.Tokens = append(append([]string{}, us.Tokens...), "pre_z")
		us.Segs = append(append([]string{}, us.Segs...), "pre_z")
	}
	out := []sweep{{"P2", r, pairs(pathAtoms(us)), crossReqs(us.Paths(), us.QMethods, rs.PathSweepHeaders[:1], true)}}
	u3 := rs.Universe{Tokens: []string{"a", "{x}", "{t:*}"}, Roots: []string{"/a", "/{r}", "/"}, MaxSub: 1,
		Segs: []string{"a", "b", ""}, MaxPath: 3, RMethods: []string{"GET", "POST"}, QMethods: []string{"GET", "POST", "PUT"}}
	if tier == "thorough" {
		u3 = rs.Universe{Tokens: []string{"a", "b", "{x}", "{n:[0-9]+}", "{t:*}"}, Roots: []string{"/", "/a", "/{r}", "/a/{r}", "/a/b"}, MaxSub: 1,
			Segs: []string{"a", "b", "7", ""}, MaxPath: 3, RMethods: []string{"GET", "POST"}, QMethods: []string{"GET", "POST", "PUT"}}
		if r == rm.Curly {
			u3.Tokens = append(u3.Tokens, "{s}.js")
			u3.Segs = append(u3.Segs, "x.js")
		}
	}
	// P2r: two routes of one service, the second declared by using the first route's RouteBuilder again
	ur := rs.Universe{Tokens: []string{"a", "b", "{x}"}, Roots: []string{"/a", "/"}, MaxSub: 2,
		Segs: []string{"a", "b", "7"}, MaxPath: 3, RMethods: []string{"GET", "POST"}, QMethods: []string{"GET", "POST", "PUT"}}
	out = append(out, sweep{"P2r", r, sameService(pairs(pathAtoms(ur))), crossReqs(ur.Paths(), ur.QMethods, rs.PathSweepHeaders[:1], false)})
	out = append(out, sweep{"P3", r, triples(pathAtoms(u3)), crossReqs(u3.Paths(), u3.QMethods, rs.PathSweepHeaders[:1], true)})
	// header variants: two routes on one template distinguished by method, plus a more specific sibling
	hu := rs.HeaderUniverse{Consumes: [][]string{nil, {rs.JSON}}, Produces: [][]string{nil, {rs.XML}, {rs.JSON}}, Ifs: [][]rm.Cond{nil, {rm.CondHdr}}, NoCT: [][]string{nil},
		CTs: []string{"", rs.JSON}, Accepts: []string{"", rs.XML, "text/plain", rs.XML + ",," + rs.JSON}, XCs: []string{"", "1"}, Bodies: []bool{false, true}}
	ha := headerAtoms("/h", []string{"/{x}", "/a"}, []string{"GET", "POST"}, hu.Decls())
	out = append(out, sweep{"H2", r, pairs(ha), crossReqs([]h.Req{{Segs: []string{"h", "a"}}, {Segs: []string{"h", "b"}}}, []string{"GET", "POST", "PUT"}, hu.Combos(), false)})
	// wide tables: 16 candidate routes for one request, 256 registration orders
	ws := wideSweep(r)
	out = append(out, sweep{"W2", r, wideDistinct(), crossReqs(pathsOf(ws.Reqs), []string{"GET", "POST", "PUT"}, rs.PathSweepHeaders[:1], false)})
	return out
}

// judgeBest: the invoked route must not be less specific than another eligible route, and the
// chosen service must be a maximal claiming root (the outcome is the expected one for some
// maximal root).
func judgeBest(p *rm.Parsed, mq rm.Request, r rm.Router, o rs.Outcome) string {
	if len(o.Invoked) != 1 {
		return ""
	}
	an := p.Analyse(mq, r)
	id := o.Invoked[0].ID
	for _, reading := range r.Readings() {
		for _, e := range p.Analyse(mq, reading).Exps {
			if e.Status != 200 {
				continue
			}
			for _, b := range e.Best {
				if b == id {
					return ""
				}
			}
		}
	}
	return fmt.Sprintf("route #%d ran; the most specific eligible routes per maximal root are %+v", id, an.Exps)
}

// muxPrefix: the ServeMux pattern base the container derives from a root path (the text before
// the first variable).
func muxPrefix(root string) string {
	if i := strings.Index(root, "{"); i >= 0 {
		return root[:i]
	}
	return root
}

// f21: signature of the recorded finding F21 - once a WebService whose mux pattern is "/" (root
// "/" or a root that starts with a variable) has been added, Container.Add registers no pattern
// for the services added later. A service whose fixed prefix is the subtree path+"/" therefore
// makes net/http's ServeMux redirect "path" to "path/" only if it was added BEFORE the "/"
// service. The signature: exactly one of the two answers is that redirect (301, nothing invoked,
// Location = path + "/"), the other is what the container's own dispatcher answers on the same
// build, and the set of patterns registered up to and including the first "/" service explains
// the redirect in the one order (path+"/" registered, path not) and its absence in the other.
func f21(t rm.Table, path string, redir, other string, redirOrder, otherOrder []int, otherDispatch string) bool {
	if !strings.HasPrefix(redir, "301 ") || !strings.HasSuffix(redir, " Location="+path+"/") || strings.Contains(redir, "#") {
		return false
	}
	if other != otherDispatch+" Location=" {
		return false
	}
	// the patterns an Add order registers: every service up to and including the first "/" service
	redirects := func(order []int) bool {
		pats := map[string]bool{}
		for _, si := range order {
			pre := muxPrefix(t.Svcs[si].Root)
			if pre == "/" || pre == "" {
				pats["/"] = true
				break
			}
			pats[pre] = true
			if !strings.HasSuffix(pre, "/") {
				pats[pre+"/"] = true
			}
		}
		return pats[path+"/"] && !pats[path]
	}
	return redirects(redirOrder) && !redirects(otherOrder)
}

func replayC03(rc routingCase, o rs.Outcome) error {
	p := rm.Parse(rc.Table)
	r := routerOf(rc.Router)
	keys := map[string]bool{}
	for _, opt := range ordersC03(rc.Sweep, rc.Table) {
		opt.Router = r
		opt.Reuse = rc.Reuse
		rec := h.NewRec()
		k := rs.Build(rc.Table, opt).Do(rc.Req.HTTP(), rec, rc.Serve).Key()
		if rc.Serve {
			k += " Location=" + rec.Result().Get("Location")
		}
		fmt.Printf("order svc=%v routes=%v -> %s\n", opt.SvcOrder, opt.RouteOrder, k)
		keys[k] = true
	}
	if len(keys) > 1 {
		return fmt.Errorf("outcome depends on the registration order")
	}
	if why := judgeBest(p, rs.ModelReq(rc.Req), r, o); why != "" {
		return fmt.Errorf("%s", why)
	}
	return nil
}

func checkC03(run *h.Run) {
	rs.Quiet(false)
	all := map[string]sweepStats{}
	var order []string
	var excluded, permBuilds int64
	for _, router := range []rm.Router{rm.Curly, rm.JSR311} {
		for _, sp := range c03Sweeps(router, run.Tier) {
			sp, router := sp, router
			name := fmt.Sprintf("%s/%s", router, sp.Name)
			order = append(order, name)
			st := runSweep(run, sp, func(w *worker, t rm.Table, p *rm.Parsed, st *sweepStats) {
				if excludedC03(p, router) {
					atomic.AddInt64(&excluded, 1)
					return
				}
				opts := ordersC03(sp.Name, t)
				bs := make([]*rs.Built, len(opts))
				for i := range opts {
					opts[i].Router = router
					opts[i].Reuse = sp.Name == "P2r"
					bs[i] = rs.Build(t, opts[i])
					if bs[i].Panic != "" {
						atomic.AddInt64(&st.buildPanics, 1)
						return
					}
				}
				atomic.AddInt64(&permBuilds, int64(len(opts)))
				var cases, disp, nontriv int64
				for qi := range w.reqs {
					o0 := bs[0].Do(w.https[qi], w.rec, false)
					k0 := o0.Key()
					disp++
					cases++
					if o0.Status != 404 {
						nontriv++
					}
					for i := 1; i < len(bs); i++ {
						oi := bs[i].Do(w.https[qi], w.rec, false)
						disp++
						if ki := oi.Key(); ki != k0 {
							rc := routingCase{Sweep: sp.Name, Router: router.String(), Table: t, Req: w.reqs[qi], Observed: o0, Reuse: sp.Name == "P2r", Other: map[string]any{"order": opts[i], "outcome": oi}}
							qi, i := qi, i
							run.Violate("order-dependence/"+router.String(), "", fmt.Sprintf("[%s] %v ; %v : registration order as declared -> %s, order svc=%v routes=%v -> %s", router, t, w.reqs[qi], k0, opts[i].SvcOrder, opts[i].RouteOrder, ki), rc, func() bool {
								a := rs.Build(t, opts[0]).Do(w.reqs[qi].HTTP(), h.NewRec(), false)
								b := rs.Build(t, opts[i]).Do(w.reqs[qi].HTTP(), h.NewRec(), false)
								return a.Key() != b.Key()
							})
							break
						}
					}
					if why := judgeBest(p, w.mreqs[qi], router, o0); why != "" {
						rc := routingCase{Sweep: sp.Name, Router: router.String(), Table: t, Req: w.reqs[qi], Observed: o0, Reuse: sp.Name == "P2r"}
						qi := qi
						run.Violate("less-specific/"+router.String(), "", fmt.Sprintf("[%s] %v ; %v : %s", router, t, w.reqs[qi], why), rc, func() bool {
							o := rs.Build(t, opts[0]).Do(w.reqs[qi].HTTP(), h.NewRec(), false)
							return judgeBest(p, w.mreqs[qi], router, o) != ""
						})
					} else if len(o0.Invoked) == 1 && nontriv%6007 == 1 {
						run.Sample(map[string]any{"sweep": name, "table": t.String(), "request": w.reqs[qi].String(), "permuted_builds": len(bs), "outcome_all_orders": k0})
					}
				}
				atomic.AddInt64(&st.cases, cases)
				atomic.AddInt64(&st.dispatches, disp)
				atomic.AddInt64(&st.nontrivial, nontriv)
			})
			all[name] = st
		}
	}
	// (S2/S3) Add order through ServeHTTP: the ServeMux patterns the container registers for its
	// services must not depend on the order in which the services were added either
	for _, router := range []rm.Router{rm.Curly, rm.JSR311} {
		router := router
		var atoms []atom
		for _, root := range []string{"/", "/a", "/a/b", "/a/{r}", "/{v}", "/ab", "/a/{r}/c"} {
			atoms = append(atoms, atom{root, rm.RouteDecl{Method: "GET", Sub: ""}})
		}
		paths := []h.Req{{}, {Segs: []string{"zz"}}}
		for _, segs := range [][]string{{"a"}, {"a", "b"}, {"a", "1"}, {"1"}, {"ab"}, {"a", "1", "c"}} {
			paths = append(paths, h.Req{Segs: segs}, h.Req{Segs: segs, Slash: true}, h.Req{Segs: append(append([]string{}, segs...), "p")})
		}
		for _, sp := range []sweep{{"S2", router, pairs(atoms), crossReqs(paths, []string{"GET", "POST"}, rs.PathSweepHeaders[:1], false)}, {"S3", router, triples(atoms), crossReqs(paths, []string{"GET", "POST"}, rs.PathSweepHeaders[:1], false)}} {
			sp := sp
			name := fmt.Sprintf("%s/%s", router, sp.Name)
			order = append(order, name)
			all[name] = runSweep(run, sp, func(w *worker, t rm.Table, p *rm.Parsed, st *sweepStats) {
				if excludedC03(p, router) {
					atomic.AddInt64(&excluded, 1)
					return
				}
				opts := buildOrders(t)
				bs := make([]*rs.Built, len(opts))
				for i := range opts {
					opts[i].Router = router
					bs[i] = rs.Build(t, opts[i])
					if bs[i].Panic != "" {
						atomic.AddInt64(&st.buildPanics, 1)
						return
					}
				}
				atomic.AddInt64(&permBuilds, int64(len(opts)))
				serveKey := func(b *rs.Built, qi int) string {
					o := b.Do(w.https[qi], w.rec, true)
					return o.Key() + " Location=" + w.rec.Result().Get("Location")
				}
				var cases, disp, nontriv int64
				for qi := range w.reqs {
					k0 := serveKey(bs[0], qi)
					cases++
					disp++
					nontriv++
					for i := 1; i < len(bs); i++ {
						disp++
						if ki := serveKey(bs[i], qi); ki != k0 {
							rc := routingCase{Sweep: sp.Name, Router: router.String(), Table: t, Req: w.reqs[qi], Serve: true, Other: map[string]any{"order": opts[i], "outcome": ki}}
							qi, i := qi, i
							finding := ""
							path := w.reqs[qi].Path()
							d0 := bs[0].Do(w.https[qi], w.rec, false).Key()
							di := bs[i].Do(w.https[qi], w.rec, false).Key()
							if f21(t, path, ki, k0, opts[i].SvcOrder, opts[0].SvcOrder, d0) || f21(t, path, k0, ki, opts[0].SvcOrder, opts[i].SvcOrder, di) {
								finding = "F21"
							}
							run.Violate("order-dependence-serve/"+router.String(), finding, fmt.Sprintf("[%s] %v ; %v through ServeHTTP : services added as declared -> %s, added in the order %v -> %s", router, t, w.reqs[qi], k0, opts[i].SvcOrder, ki), rc, func() bool {
								ra, rb := h.NewRec(), h.NewRec()
								a := rs.Build(t, opts[0]).Do(w.reqs[qi].HTTP(), ra, true)
								b := rs.Build(t, opts[i]).Do(w.reqs[qi].HTTP(), rb, true)
								return a.Key()+ra.Result().Get("Location") != b.Key()+rb.Result().Get("Location")
							})
							break
						}
					}
				}
				atomic.AddInt64(&st.cases, cases)
				atomic.AddInt64(&st.dispatches, disp)
				atomic.AddInt64(&st.nontrivial, nontriv)
			})
		}
	}
	cases, disp, nontriv := sweepCoverage(run, all, order)
	run.Cov["states"] = cases
	run.Cov["transitions"] = disp
	run.Cov["traces_validated_against_impl"] = disp
	run.Cov["evaluations"] = disp
	run.Cov["distinct_nontrivial"] = nontriv
	run.Cov["tables_excluded_by_the_property"] = excluded
	run.Cov["permuted_container_builds"] = permBuilds
	run.Cov["exhaustive"] = true
	run.Cov["rule"] = "E1 with a permutation dimension: 2-route tables (P2 alphabets + a literal that a prefix variable also matches), two routes of one service declared with one reused RouteBuilder (P2r), 3-route tables (P3), 2-route header variants (H2) and wide tables (W2: one service with the 16 four-segment literal/variable templates, 256 registration orders, up to 16 candidates per request); for each small table every permutation of the Add order x every permutation of the Route order within each service is built and every request dispatched on all builds. Oracles: identical outcome under every permutation (differential); the invoked route is not less specific than another eligible route and its service is a maximal claiming root (reference model). S2/S3: 2 and 3 services over root paths that share prefixes, differ by a variable or are each other's prefix, every Add order, every request through ServeHTTP (status, route, Location must not depend on the order). Excluded as the property says: same-shape roots, same-method routes differing only in variable names; RouterJSR311 on literal roots only. Non-trivial: not a 404."
	run.Assume = []string{"specificity order of DESIGN.md §5 (partial order; incomparable routes/roots accepted)"}
}
