package main

import (
	"encoding/json"
	"fmt"
	restful "github.com/emicklei/go-restful/v3"
	"net/http"
	"os"
	"sync/atomic"

	"verif/harness/h"
	rm "verif/harness/refmodel"
	"verif/harness/rs"
)

// atom is one route declaration together with the root of its service.
type atom struct {
	Root string
	R    rm.RouteDecl
}

// tableOf groups atoms into services by root (in order of first appearance) and numbers routes.
func tableOf(atoms ...atom) rm.Table {
	var t rm.Table
	id := 0
	for _, a := range atoms {
		si := -1
		for i := range t.Svcs {
			if t.Svcs[i].Root == a.Root {
				si = i
			}
		}
		if si < 0 {
			t.Svcs = append(t.Svcs, rm.SvcDecl{Root: a.Root})
			si = len(t.Svcs) - 1
		}
		r := a.R
		r.ID = id
		id++
		t.Svcs[si].Routes = append(t.Svcs[si].Routes, r)
	}
	return t
}

// pathAtoms: every (root, sub, method) of a universe.
func pathAtoms(u rs.Universe) []atom {
	var out []atom
	for _, root := range u.Roots {
		for _, sub := range u.Subs() {
			for _, m := range u.RMethods {
				out = append(out, atom{root, rm.RouteDecl{Method: m, Sub: sub}})
			}
		}
	}
	return out
}

// bareAtoms: route paths declared without a leading slash ("{x}", "b/{x}") - legal, and joined to
// the root path with exactly one slash like any other.
func bareAtoms(roots, subs, methods []string) []atom {
	var out []atom
	for _, root := range roots {
		for _, sub := range subs {
			for _, m := range methods {
				out = append(out, atom{root, rm.RouteDecl{Method: m, Sub: sub}})
			}
		}
	}
	return out
}

// tableGen enumerates tables by index so that work can be sharded.
type tableGen struct {
	N  int
	At func(i int) rm.Table
}

func singles(atoms []atom) tableGen {
	return tableGen{len(atoms), func(i int) rm.Table { return tableOf(atoms[i]) }}
}

// pairs: all unordered pairs i<j (and, if ordered, also j<i so that registration order varies).
func pairs(atoms []atom) tableGen {
	n := len(atoms)
	return tableGen{n * (n - 1) / 2, func(k int) rm.Table {
		// unrank k -> (i,j), i<j
		i := 0
		for k >= n-1-i {
			k -= n - 1 - i
			i++
		}
		j := i + 1 + k
		return tableOf(atoms[i], atoms[j])
	}}
}

// sameService: the tables of g in which some service has at least two routes (materialised).
func sameService(g tableGen) tableGen {
	var tabs []rm.Table
	for i := 0; i < g.N; i++ {
		t := g.At(i)
		for _, s := range t.Svcs {
			if len(s.Routes) >= 2 {
				tabs = append(tabs, t)
				break
			}
		}
	}
	return tableGen{len(tabs), func(i int) rm.Table { return tabs[i] }}
}

func triples(atoms []atom) tableGen {
	n := len(atoms)
	total := n * (n - 1) * (n - 2) / 6
	return tableGen{total, func(k int) rm.Table {
		// simple unranking by iteration over i
		for i := 0; i < n-2; i++ {
			m := (n - 1 - i) * (n - 2 - i) / 2
			if k < m {
				for j := i + 1; j < n-1; j++ {
					c := n - 1 - j
					if k < c {
						return tableOf(atoms[i], atoms[j], atoms[j+1+k])
					}
					k -= c
				}
			}
			k -= m
		}
		panic("triples: unrank out of range")
	}}
}

// combos: all k-element subsets of the atoms (registration order = atom order).
func combos(atoms []atom, k int) tableGen {
	n := len(atoms)
	// number of combinations and unranking in lexicographic order
	choose := func(a, b int) int {
		if b < 0 || b > a {
			return 0
		}
		r := 1
		for i := 1; i <= b; i++ {
			r = r * (a - b + i) / i
		}
		return r
	}
	return tableGen{choose(n, k), func(rank int) rm.Table {
		var pick []atom
		start := 0
		for left := k; left > 0; left-- {
			for i := start; i < n; i++ {
				c := choose(n-i-1, left-1)
				if rank < c {
					pick = append(pick, atoms[i])
					start = i + 1
					break
				}
				rank -= c
			}
		}
		return tableOf(pick...)
	}}
}

// worker holds per-goroutine request material (an *http.Request must not be shared: ServeMux
// writes to it).
type worker struct {
	reqs  []h.Req
	https []*http.Request
	mreqs []rm.Request
	rec   *h.Rec
}

type sweep struct {
	Name   string
	Router rm.Router
	Tables tableGen
	Reqs   []h.Req
}

type sweepStats struct {
	tables, buildPanics, cases, dispatches, nontrivial int64
}

// runSweep shards the tables of a sweep over workers and calls visit for each table.
func runSweep(run *h.Run, sp sweep, visit func(w *worker, t rm.Table, p *rm.Parsed, st *sweepStats)) sweepStats {
	var st sweepStats
	ws := make([]*worker, h.Workers())
	h.Parallel(sp.Tables.N, func(k, i int) {
		w := ws[k]
		if w == nil {
			w = &worker{reqs: sp.Reqs, rec: h.NewRec()}
			for _, r := range sp.Reqs {
				w.https = append(w.https, r.HTTP())
				w.mreqs = append(w.mreqs, rs.ModelReq(r))
			}
			ws[k] = w
		}
		t := sp.Tables.At(i)
		p := rm.Parse(t)
		atomic.AddInt64(&st.tables, 1)
		visit(w, t, p, &st)
	})
	return st
}

// crossReqs: paths × methods × header combos.
func crossReqs(paths []h.Req, methods []string, combos []rs.HeaderCombo, emptyPath bool) []h.Req {
	var out []h.Req
	for _, p := range paths {
		for _, m := range methods {
			for _, hc := range combos {
				r := hc.Apply(p)
				r.Method = m
				out = append(out, r)
			}
		}
	}
	if emptyPath {
		for _, m := range methods {
			out = append(out, h.Req{Method: m, Empty: true})
		}
	}
	return out
}

// routingCase is the replayable detail of a routing violation.
type routingCase struct {
	Sweep    string     `json:"sweep"`
	Router   string     `json:"router"`
	Table    rm.Table   `json:"table"`
	Req      h.Req      `json:"req"`
	Serve    bool       `json:"serve_http"`
	Filter   bool       `json:"filter"`
	Longhand bool       `json:"longhand,omitempty"` // routes declared with Method(m).Path(p)
	Options  bool       `json:"options_filter,omitempty"`
	Switched bool       `json:"router_switched_first,omitempty"` // the other router was configured first
	Reuse    bool       `json:"builder_reused,omitempty"`
	Late     bool       `json:"router_switched_after_serving,omitempty"` // the container served requests under the other router before it was switched
	Tier     string     `json:"tier,omitempty"`
	Lite     bool       `json:"lite,omitempty"`
	ReqIndex int        `json:"req_index,omitempty"` // position of Req in the sweep's request list (history replay)
	Observed rs.Outcome `json:"observed"`
	Expected any        `json:"expected,omitempty"`
	Other    any        `json:"other,omitempty"`
}

func routerOf(s string) rm.Router {
	if s == "jsr311" {
		return rm.JSR311
	}
	return rm.Curly
}

func replayRouting(oracle func(rc routingCase, o rs.Outcome) error) replayFn {
	return func(detail json.RawMessage) error {
		var rc routingCase
		if err := json.Unmarshal(detail, &rc); err != nil {
			return err
		}
		rs.Quiet(false)
		b := rs.Build(rc.Table, rs.BuildOpt{Router: routerOf(rc.Router), Filter: rc.Filter, Longhand: rc.Longhand, Options: rc.Options, Switched: rc.Switched, Reuse: rc.Reuse})
		if b.Panic != "" {
			return fmt.Errorf("container construction panics: %s", b.Panic)
		}
		if rc.Late {
			// the same request (and its GET / POST twins) under the other router first, then the switch
			other := rm.JSR311
			if routerOf(rc.Router) == rm.JSR311 {
				other = rm.Curly
			}
			b = rs.Build(rc.Table, rs.BuildOpt{Router: other})
			for _, m := range []string{rc.Req.Method, "GET", "POST"} {
				q := rc.Req
				q.Method = m
				fmt.Printf("under the other router: %s %s -> %s\n", m, q.Path(), b.Do(q.HTTP(), h.NewRec(), false).Key())
			}
			if routerOf(rc.Router) == rm.JSR311 {
				b.C.Router(restful.RouterJSR311{})
			} else {
				b.C.Router(restful.CurlyRouter{})
			}
			b.Router = routerOf(rc.Router)
		}
		o := b.Do(rc.Req.HTTP(), h.NewRec(), rc.Serve)
		fmt.Printf("table: %v\nrequest: %v\nobserved: %s\n", rc.Table, rc.Req, o.Key())
		if err := oracle(rc, o); err != nil || rc.Tier == "" {
			return err
		}
		// not reproduced alone: replay the sweep's requests that preceded it on a fresh container
		for _, sp := range routingSweeps(routerOf(rc.Router), rc.Tier, rc.Lite) {
			if sp.Name == rc.Sweep && rc.ReqIndex < len(sp.Reqs) {
				b := rs.Build(rc.Table, rs.BuildOpt{Router: routerOf(rc.Router), Filter: rc.Filter, Longhand: rc.Longhand, Options: rc.Options, Switched: rc.Switched, Reuse: rc.Reuse})
				for k := 0; k <= rc.ReqIndex; k++ {
					o = b.Do(sp.Reqs[k].HTTP(), h.NewRec(), rc.Serve)
				}
				fmt.Printf("after replaying the %d requests served before it on the same container: %s\n", rc.ReqIndex, o.Key())
				return oracle(rc, o)
			}
		}
		return nil
	}
}

// headerAtoms: route declarations on fixed templates × the header-ish declaration alphabet.
func headerAtoms(root string, subs []string, methods []string, decls []rs.HeaderDecl) []atom {
	var out []atom
	for _, sub := range subs {
		for _, m := range methods {
			for _, d := range decls {
				out = append(out, atom{root, rm.RouteDecl{Method: m, Sub: sub, Consumes: d.Consumes, Produces: d.Produces, If: d.If, NoCT: d.NoCT}})
			}
		}
	}
	return out
}

// pathReqs: every path × (every method with no headers) + (POST with a JSON body and headers).
func pathReqs(paths []h.Req, methods []string, emptyPath bool) []h.Req {
	out := crossReqs(paths, methods, rs.PathSweepHeaders[:1], emptyPath)
	return append(out, crossReqs(paths, []string{"POST"}, rs.PathSweepHeaders[1:], false)...)
}

// routingSweeps returns the stated sweeps (P path, H header, X cross) for a router/tier.
// lite selects the reduced variant used for the trace-on repetition.
func routingSweeps(r rm.Router, tier string, lite bool) []sweep {
	var out []sweep
	thorough := tier == "thorough"
	// (P1) single-route tables over the full alphabets × every path × methods
	u := rs.PathUniverse(r, tier, false)
	if lite {
		out = append(out, sweep{"P1", r, singles(pathAtoms(u)), crossReqs(u.Paths(), []string{"GET", "POST"}, rs.PathSweepHeaders[:1], true)})
	} else {
		out = append(out, sweep{"P1", r, singles(pathAtoms(u)), pathReqs(u.Paths(), u.QMethods, true)})
	}
	// (P2) two-route tables over the halved alphabets
	if !lite {
		us := rs.PathUniverse(r, tier, true)
		out = append(out, sweep{"P2", r, pairs(pathAtoms(us)), crossReqs(us.Paths(), us.QMethods, rs.PathSweepHeaders[:1], true)})
	}
	if thorough && !lite {
		ud := rs.DeepUniverse(r)
		out = append(out, sweep{"P1deep", r, singles(pathAtoms(ud)), crossReqs(ud.Paths(), ud.QMethods, rs.PathSweepHeaders[:1], true)})
		up := rs.DeepPairUniverse(r)
		out = append(out, sweep{"P2deep", r, pairs(pathAtoms(up)), crossReqs(up.Paths(), up.QMethods, rs.PathSweepHeaders[:1], true)})
	}
	// (H) header sweep: 1-2 routes on one fixed template × full header product
	hu := rs.QuickHeaders()
	if thorough {
		hu = rs.ThoroughHeaders()
	}
	ha := headerAtoms("/h", []string{"/{x}"}, []string{"GET", "POST"}, hu.Decls())
	hpaths := []h.Req{{Segs: []string{"h", "1"}}}
	hreqs := crossReqs(hpaths, []string{"GET", "POST", "PUT", "DELETE"}, hu.Combos(), false)
	out = append(out, sweep{"H1", r, singles(ha), hreqs})
	if !lite && (r == rm.Curly || thorough) {
		// pairs: declarations without an AllowedMethodsWithoutContentType override in the quick tier
		ha2 := ha
		if !thorough {
			ha2 = nil
			for _, a := range ha {
				if len(a.R.NoCT) == 0 {
					ha2 = append(ha2, a)
				}
			}
		}
		out = append(out, sweep{"H2", r, pairs(ha2), hreqs})
	}
	// (X) cross sweep: 2-route tables × everything over halved alphabets
	if !lite {
		xu := rs.Universe{Tokens: []string{"{x}", "{t:*}"}, Roots: []string{"/a", "/{r}"}, MaxSub: 1,
			Segs: []string{"a", "b"}, MaxPath: 2, RMethods: []string{"GET", "POST"}}
		xh := rs.HeaderUniverse{Consumes: [][]string{nil, {rs.JSON}}, Produces: [][]string{nil, {rs.XML}}, Ifs: [][]rm.Cond{nil, {rm.CondHdr}}, NoCT: [][]string{nil},
			CTs: []string{"", "text/plain"}, Accepts: []string{"", "text/plain"}, XCs: []string{"", "1"}, Bodies: []bool{false, true}}
		if thorough {
			xu.Tokens = []string{"a", "{x}", "{t:*}"}
			xu.Roots = []string{"/", "/a", "/{r}"}
			xu.Segs = []string{"a", "b", ""}
			xh.CTs = []string{"", rs.JSON, "text/plain"}
			xh.Accepts = []string{"", rs.XML, "text/plain"}
		}
		var xa []atom
		for _, root := range xu.Roots {
			xa = append(xa, headerAtoms(root, xu.Subs(), xu.RMethods, xh.Decls())...)
		}
		out = append(out, sweep{"X2", r, pairs(xa), crossReqs(xu.Paths(), []string{"GET", "POST", "PUT"}, xh.Combos(), false)})
	}
	if thorough && !lite {
		// (P3) three-route tables over a further reduced alphabet
		u3 := rs.Universe{Tokens: []string{"a", "{x}", "{n:[0-9]+}", "{t:*}"}, Roots: []string{"/", "/a", "/{r}", "/a/{r}"}, MaxSub: 1,
			Segs: []string{"a", "b", "7", ""}, MaxPath: 3, RMethods: []string{"GET", "POST"}, QMethods: []string{"GET", "POST", "PUT"}}
		if r == rm.Curly {
			u3.Tokens = append(u3.Tokens, "{s}.js", "a:go")
			u3.Segs = append(u3.Segs, "x.js", "a:go")
		}
		out = append(out, sweep{"P3", r, triples(pathAtoms(u3)), crossReqs(u3.Paths(), u3.QMethods, rs.PathSweepHeaders[:1], true)})
	}
	if !lite {
		// (P4, P5) four- and five-route tables over a tiny alphabet: thresholds in the number of routes
		u4 := rs.Universe{Tokens: []string{"a", "{x}", "{t:*}"}, Roots: []string{"/a", "/{r}"}, MaxSub: 1,
			Segs: []string{"a", "b", ""}, MaxPath: 3, RMethods: []string{"GET", "POST"}, QMethods: []string{"GET", "POST", "PUT"}}
		a4 := pathAtoms(u4)
		r4 := crossReqs(u4.Paths(), u4.QMethods, rs.PathSweepHeaders[:1], false)
		out = append(out, sweep{"P4", r, combos(a4, 4), r4}, sweep{"P5", r, combos(a4, 5), r4})
		// (M1) every route method x every request method on one template
		allMethods := []string{"GET", "POST", "PUT", "DELETE", "PATCH", "HEAD", "OPTIONS"}
		mh := rs.HeaderUniverse{Consumes: [][]string{nil, {rs.JSON}}, Produces: [][]string{nil, {rs.XML}}, Ifs: [][]rm.Cond{nil}, NoCT: [][]string{nil, {"PATCH", "HEAD"}},
			CTs: []string{"", rs.JSON, "text/plain"}, Accepts: []string{"", rs.XML, "text/plain"}, XCs: []string{""}, Bodies: []bool{false, true}}
		ma := headerAtoms("/m", []string{"/{x}"}, allMethods, mh.Decls())
		// request methods: also a lower-case spelling and methods no route can have here
		mreqs := crossReqs([]h.Req{{Segs: []string{"m", "1"}}}, append(append([]string{}, allMethods...), "get", "CONNECT", "TRACE"), mh.Combos(), false)
		out = append(out, sweep{"M1", r, singles(ma), mreqs}, sweep{"M2", r, pairs(ma), mreqs})
		// (D1) Consumes / Produces declared on the WebService and inherited by routes without their own
		out = append(out, sweep{"D1", r, defaultsTables(), crossReqs([]h.Req{{Segs: []string{"d", "1"}}}, []string{"GET", "POST"}, hu.Combos(), false)})
	}
	if !lite {
		out = append(out, wideSweep(r))
		// (MX) extension methods whose names contain one another, 2-3 routes on one template in every order
		out = append(out, sweep{"MX", r, mxTables(), crossReqs([]h.Req{{Segs: []string{"m", "1"}}, {Segs: []string{"m"}}}, append([]string{"POST"}, c17MXMethods...), rs.PathSweepHeaders[:1], false)})
	}
	if !lite {
		out = append(out, reuseSweep(r))
		// (B1, B2) route paths declared without a leading slash, alone and in pairs (also next to slashed twins)
		ba := bareAtoms([]string{"/", "/a", "/a/"}, []string{"{x}", "b", "b/{x}", "{x}/b"}, []string{"GET", "POST"})
		bu := rs.Universe{Segs: []string{"a", "b", "7"}, MaxPath: 3}
		breqs := crossReqs(bu.Paths(), []string{"GET", "POST", "PUT"}, rs.PathSweepHeaders[:1], false)
		out = append(out, sweep{"B1", r, singles(ba), breqs})
		out = append(out, sweep{"B2", r, pairs(append(ba, bareAtoms([]string{"/a"}, []string{"/{x}", "/b"}, []string{"GET"})...)), breqs})
	}
	if only := os.Getenv("VERIF_ONLY_SWEEP"); only != "" {
		var f []sweep
		for _, sp := range out {
			if sp.Name == only {
				f = append(f, sp)
			}
		}
		return f
	}
	return out
}

// wideSweep (W1): one service /r holding 32 routes - the 16 four-segment templates in which each
// position is either its literal (a, b, c, d) or a variable, each declared twice (GET producing
// JSON and GET producing XML) - registered in 512 different orders (position i of the order holds
// route (i*stride+offset) mod 32, every odd stride x every offset). Up to 32 candidate routes match
// one request, far beyond the sizes at which sorting routines switch algorithm.
func wideSweep(r rm.Router) sweep {
	lits := []string{"a", "b", "c", "d"}
	var decls []rm.RouteDecl
	for mask := 0; mask < 16; mask++ {
		sub := ""
		for i, l := range lits {
			if mask&(1<<i) != 0 {
				sub += "/" + l
			} else {
				sub += fmt.Sprintf("/{p%d}", i)
			}
		}
		decls = append(decls, rm.RouteDecl{Method: "GET", Sub: sub, Produces: []string{rs.JSON}}, rm.RouteDecl{Method: "GET", Sub: sub, Produces: []string{rs.XML}})
	}
	n := len(decls)
	gen := tableGen{16 * n, func(k int) rm.Table {
		stride, off := 2*(k/n)+1, k%n
		routes := make([]rm.RouteDecl, n)
		for i := range routes {
			routes[i] = decls[(i*stride+off)%n]
			routes[i].ID = i
		}
		return rm.Table{Svcs: []rm.SvcDecl{{Root: "/r", Routes: routes}}}
	}}
	var paths []h.Req
	for mask := 0; mask < 16; mask++ {
		segs := []string{"r"}
		for i, l := range lits {
			if mask&(1<<i) != 0 {
				segs = append(segs, l)
			} else {
				segs = append(segs, "z")
			}
		}
		paths = append(paths, h.Req{Segs: segs})
	}
	hcs := []rs.HeaderCombo{{}, {Accept: "*/*"}, {Accept: rs.JSON}, {Accept: rs.XML}, {Accept: "text/plain"}}
	return sweep{"W1", r, gen, crossReqs(paths, []string{"GET", "POST"}, hcs, false)}
}

// reuseSweep (R2): two routes of one service /h where the second is meant to be declared by using
// the first route's RouteBuilder again (rs.BuildOpt.Reuse): other method / path / Consumes /
// Produces, the first route's conditions plus possibly one more. A builder may be reused; the
// route built first must not change when it is.
func reuseSweep(r rm.Router) sweep {
	var tabs []rm.Table
	lists := func(ls ...[]string) [][]string { return ls }
	for _, c1 := range lists(nil, []string{rs.JSON}) {
		for _, p1 := range lists(nil, []string{rs.XML, rs.JSON}, []string{rs.JSON}) {
			for _, if1 := range [][]rm.Cond{nil, {rm.CondHdr}, {rm.CondTrue}} {
				for _, m2 := range []string{"GET", "POST"} {
					for _, c2 := range lists([]string{rs.JSON}, []string{rs.XML, rs.JSON}) {
						for _, p2 := range lists([]string{rs.JSON}, []string{rs.XML}, []string{rs.XML, rs.JSON}) {
							for _, extra := range [][]rm.Cond{nil, {rm.CondHdr}, {rm.CondFalse}} {
								if2 := append(append([]rm.Cond{}, if1...), extra...)
								tabs = append(tabs, rm.Table{Svcs: []rm.SvcDecl{{Root: "/h", Routes: []rm.RouteDecl{
									{ID: 0, Method: "GET", Sub: "/{x}", Consumes: c1, Produces: p1, If: if1},
									{ID: 1, Method: m2, Sub: "/b/{y}", Consumes: c2, Produces: p2, If: if2}}}}})
							}
						}
					}
				}
			}
		}
	}
	hcs := rs.HeaderUniverse{CTs: []string{"", rs.JSON, "text/plain"}, Accepts: []string{"", rs.JSON, rs.XML, "text/plain"}, XCs: []string{"", "1"}, Bodies: []bool{false, true}}.Combos()
	reqs := crossReqs([]h.Req{{Segs: []string{"h", "1"}}, {Segs: []string{"h", "b", "1"}}}, []string{"GET", "POST"}, hcs, false)
	return sweep{"R2", r, tableGen{len(tabs), func(i int) rm.Table { return tabs[i] }}, reqs}
}

// defaultsTables: one service /d with service-level Consumes/Produces defaults and 1-2 routes that
// declare their own lists or inherit.
func defaultsTables() tableGen {
	lists := [][]string{nil, {rs.JSON}, {rs.XML, rs.JSON}}
	var tabs []rm.Table
	for _, sc := range lists {
		for _, spd := range lists {
			if sc == nil && spd == nil {
				continue
			}
			for _, rc := range lists {
				for _, rp := range lists {
					for _, m := range []string{"GET", "POST"} {
						t := rm.Table{Svcs: []rm.SvcDecl{{Root: "/d", Consumes: sc, Produces: spd, Routes: []rm.RouteDecl{{ID: 0, Method: m, Sub: "/{x}", Consumes: rc, Produces: rp}}}}}
						tabs = append(tabs, t)
						t2 := rm.Table{Svcs: []rm.SvcDecl{{Root: "/d", Consumes: sc, Produces: spd, Routes: []rm.RouteDecl{{ID: 0, Method: m, Sub: "/{x}", Consumes: rc, Produces: rp}, {ID: 1, Method: m, Sub: "/{y}"}}}}}
						tabs = append(tabs, t2)
					}
				}
			}
		}
	}
	return tableGen{len(tabs), func(i int) rm.Table { return tabs[i] }}
}

func sweepCoverage(run *h.Run, all map[string]sweepStats, order []string) (cases, dispatches, nontrivial int64) {
	per := map[string]any{}
	for _, name := range order {
		st := all[name]
		per[name] = map[string]int64{"tables": st.tables, "cases": st.cases, "dispatches": st.dispatches, "nontrivial_cases": st.nontrivial, "tables_whose_construction_panicked": st.buildPanics}
		cases += st.cases
		dispatches += st.dispatches
		nontrivial += st.nontrivial
	}
	run.Cov["sweeps"] = per
	return
}

// pathsOf returns the distinct paths (method and headers stripped) of a request list, in order.
func pathsOf(reqs []h.Req) []h.Req {
	seen := map[string]bool{}
	var out []h.Req
	for _, q := range reqs {
		p := h.Req{Segs: q.Segs, Slash: q.Slash, Lead: q.Lead}
		if k := p.Path(); !seen[k] {
			seen[k] = true
			out = append(out, p)
		}
	}
	return out
}
