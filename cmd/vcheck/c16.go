package main

import (
	"bytes"
	"compress/gzip"
	"compress/zlib"
	"encoding/json"
	"fmt"
	"io"
	"math"
	"reflect"
	"strings"

	restful "github.com/emicklei/go-restful/v3"

	"verif/harness/h"
	"verif/harness/rs"
)

func init() { register("C16", checkC16, replayC16) }

type c16Item struct {
	K string `json:"k" xml:"k"`
	V int64  `json:"v" xml:"v"`
}

type c16Val struct {
	N     int64     `json:"n" xml:"n"`
	S     string    `json:"s" xml:"s"`
	Items []c16Item `json:"items" xml:"items"`
}

func c16Values(tier string) []c16Val {
	ints := []int64{0, -1, 1<<53 + 1, math.MaxInt64, math.MinInt64}
	strs := []string{"", "plain ascii", "é漢😀", `<&>"\ ]]> '`, "tab\tnl\n", " lead and trail "}
	lists := [][]c16Item{nil, {{"a", 1}}, {{"é", math.MaxInt64}, {"<b>", -7}}}
	var out []c16Val
	for _, n := range ints {
		for _, s := range strs {
			for _, l := range lists {
				out = append(out, c16Val{n, s, l})
			}
		}
	}
	// larger than every internal buffer (bufio 4 kB, flate window 32 kB): 70 kB string, 300 items
	big := make([]c16Item, 300)
	for i := range big {
		big[i] = c16Item{fmt.Sprintf("key-%d-é", i), int64(i) * 1234567891011}
	}
	out = append(out, c16Val{7, strings.Repeat("0123456789abcdef<&>é", 3500), nil}, c16Val{math.MinInt64, "items", big}, c16Val{1, strings.Repeat("x", 4096), big[:2]})
	return out
}

type c16Case struct {
	Val      c16Val `json:"value"`
	Codec    string `json:"codec"`        // json, xml
	CT       string `json:"content_type"` // "-" = absent (DefaultRequestContentType set to the codec's type)
	Enc      string `json:"content_encoding"`
	Pretty   bool   `json:"pretty"`
	Provider string `json:"provider"`
	Generic  bool   `json:"generic_target"` // read into map[string]interface{} (JSON only)
}

func (c c16Case) String() string {
	return fmt.Sprintf("%s %+v CT=%q enc=%q pretty=%v provider=%s generic=%v", c.Codec, c.Val, c.CT, c.Enc, c.Pretty, c.Provider, c.Generic)
}

func encodeBody(enc string, b []byte) []byte {
	var buf bytes.Buffer
	switch enc {
	case "gzip":
		w := gzip.NewWriter(&buf)
		w.Write(b)
		w.Close()
	case "deflate":
		w := zlib.NewWriter(&buf)
		w.Write(b)
		w.Close()
	default:
		return b
	}
	return buf.Bytes()
}

// c16World: a generator route (the real entity WRITER) and an echo route (the real entity READER).
type c16World struct {
	c       *restful.Container
	val     *c16Val
	pretty  bool
	gotS    c16Val
	gotG    map[string]interface{}
	readErr error
	generic bool
	again   []byte // the request body once more, for a second ReadEntity on the same Request
}

func c16Build() *c16World {
	w := &c16World{}
	c := restful.NewContainer()
	ws := new(restful.WebService).Path("/e").Produces(restful.MIME_JSON, restful.MIME_XML)
	ws.Route(ws.GET("/gen").To(func(req *restful.Request, resp *restful.Response) {
		resp.PrettyPrint(w.pretty)
		resp.WriteEntity(*w.val)
	}))
	ws.Route(ws.POST("/echo").To(func(req *restful.Request, resp *restful.Response) {
		w.gotS, w.gotG = c16Val{}, nil
		if w.generic {
			w.readErr = req.ReadEntity(&w.gotG)
		} else {
			w.readErr = req.ReadEntity(&w.gotS)
		}
		if w.readErr == nil && w.again != nil && !w.generic {
			// the body is put back (as a filter that peeked at it would) and the same Request reads
			// its entity a second time: the same value again
			req.Request.Body = io.NopCloser(bytes.NewReader(w.again))
			first := w.gotS
			w.gotS = c16Val{}
			if w.readErr = req.ReadEntity(&w.gotS); w.readErr == nil && fmt.Sprintf("%+v", normVal(first)) != fmt.Sprintf("%+v", normVal(w.gotS)) {
				w.readErr = fmt.Errorf("second ReadEntity on the same Request gave %+v, the first %+v", w.gotS, first)
			} else if w.readErr != nil {
				w.readErr = fmt.Errorf("second ReadEntity on the same Request (body restored): %v", w.readErr)
			}
		}
		if w.readErr != nil {
			resp.WriteErrorString(400, w.readErr.Error())
		}
	}))
	c.Add(ws)
	w.c = c
	return w
}

func codecType(codec string) string {
	if codec == "xml" {
		return restful.MIME_XML
	}
	return restful.MIME_JSON
}

// generate runs the real writer and returns the written bytes.
func (w *c16World) generate(v c16Val, codec string, pretty bool) ([]byte, error) {
	w.val, w.pretty = &v, pretty
	rec := h.NewRec()
	w.c.Dispatch(rec, (h.Req{Method: "GET", Segs: []string{"e", "gen"}, Hdr: [][2]string{{"Accept", codecType(codec)}}}).HTTP())
	if rec.Code != 200 {
		return nil, fmt.Errorf("generator answered %d %s", rec.Code, rec.Buf.String())
	}
	return append([]byte{}, rec.Buf.Bytes()...), nil
}

// post sends a body to the echo route; returns a panic as string.
func (w *c16World) post(body []byte, ct, enc string, generic bool) (panicked string) {
	w.generic = generic
	q := h.Req{Method: "POST", Segs: []string{"e", "echo"}, Body: string(body)}
	if ct != "-" {
		q.Hdr = append(q.Hdr, [2]string{"Content-Type", ct})
	}
	if enc != "" {
		q.Hdr = append(q.Hdr, [2]string{"Content-Encoding", enc})
	}
	if len(body) == 0 {
		q.Body = ""
	}
	defer func() {
		if r := recover(); r != nil {
			panicked = fmt.Sprint(r)
		}
	}()
	w.readErr = fmt.Errorf("echo handler did not run")
	w.again = body // well-formed bodies are read twice from the same Request (restored in between)
	rec := h.NewRec()
	w.c.Dispatch(rec, q.HTTP())
	return ""
}

func normVal(v c16Val) c16Val {
	if len(v.Items) == 0 {
		v.Items = nil
	}
	return v
}

// genericEquals compares a JSON object decoded into map[string]interface{} with the original:
// 64-bit integers must be exact.
func genericEquals(g map[string]interface{}, v c16Val) string {
	num := func(x interface{}) string { return fmt.Sprint(x) }
	if num(g["n"]) != fmt.Sprint(v.N) {
		return fmt.Sprintf("n decoded as %v (%T), expected %d", g["n"], g["n"], v.N)
	}
	if s, _ := g["s"].(string); s != v.S {
		return fmt.Sprintf("s decoded as %q, expected %q", g["s"], v.S)
	}
	items, _ := g["items"].([]interface{})
	if len(items) != len(v.Items) {
		return fmt.Sprintf("%d items decoded, expected %d", len(items), len(v.Items))
	}
	for i, it := range items {
		m, _ := it.(map[string]interface{})
		if num(m["v"]) != fmt.Sprint(v.Items[i].V) || fmt.Sprint(m["k"]) != v.Items[i].K {
			return fmt.Sprintf("item %d decoded as %v, expected %+v", i, it, v.Items[i])
		}
	}
	return ""
}

func judgeC16(cs c16Case) string {
	restful.SetCompressorProvider(newProvider(cs.Provider))
	if cs.CT == "-" {
		restful.DefaultRequestContentType(codecType(cs.Codec))
		defer restful.DefaultRequestContentType("")
	}
	w := c16Build()
	written, err := w.generate(cs.Val, cs.Codec, cs.Pretty)
	if err != nil {
		return err.Error()
	}
	if p := w.post(encodeBody(cs.Enc, written), cs.CT, cs.Enc, cs.Generic); p != "" {
		return "panic while reading: " + p
	}
	if w.readErr != nil {
		return fmt.Sprintf("ReadEntity returned %v for the well-formed body %q", w.readErr, clip(written))
	}
	if cs.Generic {
		return genericEquals(w.gotG, cs.Val)
	}
	if !reflect.DeepEqual(normVal(w.gotS), normVal(cs.Val)) {
		return fmt.Sprintf("read back %+v, written %+v (wire: %q)", w.gotS, cs.Val, clip(written))
	}
	return ""
}

// ---- histories of well-formed and broken bodies on one provider ----

type c16Body struct {
	Name string
	Data []byte
	Enc  string
	OK   bool // well-formed
}

func c16Bodies(written []byte) []c16Body {
	gz := encodeBody("gzip", written)
	flip := func(b []byte, i int) []byte {
		c := append([]byte{}, b...)
		c[i] ^= 0x55
		return c
	}
	return []c16Body{
		{"well-formed", gz, "gzip", true},
		{"well-formed-2", encodeBody("gzip", bytes.Replace(written, []byte("plain"), []byte("other"), 1)), "gzip", true},
		{"truncated@5", gz[:5], "gzip", false},
		{"truncated@mid", gz[:len(gz)/2], "gzip", false},
		{"truncated@-4", gz[:len(gz)-4], "gzip", false},
		{"flip-header", flip(gz, 1), "gzip", false},
		{"flip-middle", flip(gz, len(gz)/2), "gzip", false},
		{"flip-trailer", flip(gz, len(gz)-6), "gzip", false},
		{"plain-declared-gzip", written, "gzip", false},
		{"gzip-declared-deflate", gz, "deflate", false},
		{"empty", nil, "gzip", false},
		{"syntax-broken-json", encodeBody("gzip", written[:len(written)/2]), "gzip", false},
		{"well-formed-deflate", encodeBody("deflate", written), "deflate", true},
		// two gzip members back to back (RFC 1952 section 2.2): decodes to the concatenation
		{"two-members", append(append([]byte{}, encodeBody("gzip", written[:len(written)/2])...), encodeBody("gzip", written[len(written)/2:])...), "gzip", true},
	}
}

type c16Hist struct {
	Provider string   `json:"provider"`
	Seq      []string `json:"sequence"`
	Got      string   `json:"got"`
	Want     string   `json:"alone_on_fresh_provider"`
}

// c16PostResult renders what reading a body gave.
func c16PostResult(w *c16World, b c16Body) string {
	if p := w.post(b.Data, restful.MIME_JSON, b.Enc, false); p != "" {
		return "PANIC " + p
	}
	if w.readErr != nil {
		return "error"
	}
	return fmt.Sprintf("value %+v", normVal(w.gotS))
}

func replayC16(detail json.RawMessage) error {
	rs.Quiet(false)
	var cs c16Case
	if err := json.Unmarshal(detail, &cs); err == nil && cs.Codec != "" {
		if why := judgeC16(cs); why != "" {
			return fmt.Errorf("%s", why)
		}
		return nil
	}
	var hc c16Hist
	if err := json.Unmarshal(detail, &hc); err != nil {
		return err
	}
	issues := c16RunHistory(hc.Provider, hc.Seq)
	if issues != "" {
		return fmt.Errorf("%s", issues)
	}
	return nil
}

var c16HistVal = c16Val{1<<53 + 1, "plain ascii é", []c16Item{{"a", 1}}}

// f13: signature of the recorded finding F13 - the compressed payload is intact and only the
// gzip trailer (CRC32/length) is damaged or cut off; ReadEntity returns the correct value and no
// error because the entity decoder stops reading after the value and never reaches the trailer.
func f13(lastName, got string) bool {
	return (lastName == "truncated@-4" || lastName == "flip-trailer") && got == fmt.Sprintf("value %+v", normVal(c16HistVal))
}

func c16RunHistory(provider string, names []string) string {
	why, _ := c16RunHistoryF(provider, names)
	return why
}

func c16RunHistoryF(provider string, names []string) (string, string) {
	led := newLedger(newProvider(provider))
	restful.SetCompressorProvider(led)
	w := c16Build()
	written, _ := w.generate(c16HistVal, "json", false)
	byName := map[string]c16Body{}
	for _, b := range c16Bodies(written) {
		byName[b.Name] = b
	}
	got := ""
	for _, n := range names {
		got = c16PostResult(w, byName[n])
	}
	last := byName[names[len(names)-1]]
	if ms := led.report(true); len(ms) > 0 {
		return fmt.Sprintf("after %v: the (de)compressor ledger of the provider is not clean: %s", names, ms[0]), ""
	}
	restful.SetCompressorProvider(newProvider(provider))
	w2 := c16Build()
	want := c16PostResult(w2, last)
	if strings.HasPrefix(got, "PANIC") {
		return fmt.Sprintf("after %v reading %q panics: %s", names[:len(names)-1], last.Name, got), ""
	}
	if got != want {
		return fmt.Sprintf("after %v the body %q reads as %s ; sent first on a fresh provider it reads as %s", names[:len(names)-1], last.Name, got, want), ""
	}
	if last.OK && got == "error" {
		return fmt.Sprintf("well-formed body %q gives an error", last.Name), ""
	}
	if !last.OK && got != "error" {
		f := ""
		if f13(last.Name, got) {
			f = "F13"
		}
		return fmt.Sprintf("broken body %q is read without an error: %s", last.Name, got), f
	}
	return "", ""
}

func checkC16(run *h.Run) {
	rs.Quiet(false)
	// ---- E1: values x spellings x encodings (package-level provider / default content type:
	// cases run one after the other) ----
	var cases []c16Case
	vals := c16Values(run.Tier)
	cts := map[string][]string{
		"json": {restful.MIME_JSON, "application/json; charset=utf-8", "application/json;charset=UTF-8", "application/json ;charset=UTF-8", "application/json ; charset=utf-8", "-"},
		"xml":  {restful.MIME_XML, "application/xml; charset=utf-8", "application/xml;charset=UTF-8", "application/xml ;charset=UTF-8", "-"},
	}
	for vi, v := range vals {
		for _, codec := range []string{"json", "xml"} {
			for _, ct := range cts[codec] {
				for _, enc := range []string{"", "gzip", "deflate"} {
					for _, pretty := range []bool{true, false} {
						for _, prov := range []string{"syncpool", "bounded1"} {
							if run.Tier != "thorough" && vi%3 != 0 && (ct != cts[codec][0] || prov != "bounded1") {
								continue // quick: the full spelling/provider product on every third value
							}
							cases = append(cases, c16Case{v, codec, ct, enc, pretty, prov, false})
							if codec == "json" {
								cases = append(cases, c16Case{v, codec, ct, enc, pretty, prov, true})
							}
						}
					}
				}
			}
		}
	}
	for i, cs := range cases {
		if why := judgeC16(cs); why != "" {
			cs := cs
			run.Violate("round-trip", "", fmt.Sprintf("%v : %s", cs, why), cs, func() bool { return judgeC16(cs) != "" })
		} else if i%2503 == 0 {
			run.Sample(map[string]any{"case": cs.String()})
		}
	}
	// ---- E2: every sequence of <= 3 (thorough 4) bodies over well-formed and broken ones ----
	depth := 3
	if run.Tier == "thorough" {
		depth = 4
	}
	w := c16Build()
	written, _ := w.generate(c16HistVal, "json", false)
	var names []string
	for _, b := range c16Bodies(written) {
		names = append(names, b.Name)
	}
	if run.Tier != "thorough" {
		// quick: 9 of the 13 bodies in sequences (all 13 are used alone)
	}
	var seqs [][]string
	var rec func(cur []string)
	rec = func(cur []string) {
		if len(cur) > 0 {
			seqs = append(seqs, append([]string{}, cur...))
		}
		if len(cur) == depth {
			return
		}
		for _, n := range names {
			if len(cur) >= 1 && run.Tier != "thorough" && (n == "truncated@mid" || n == "flip-middle" || n == "gzip-declared-deflate" || n == "well-formed-2") && len(cur) < depth-1 {
				continue
			}
			rec(append(cur, n))
		}
	}
	rec(nil)
	var trans int64
	for _, prov := range []string{"syncpool", "bounded1"} {
		for _, seq := range seqs {
			trans += int64(len(seq))
			if why, f := c16RunHistoryF(prov, seq); why != "" {
				run.Violate("body-history", f, fmt.Sprintf("provider %s: %s", prov, why), c16Hist{prov, seq, "", ""}, nil)
			}
		}
	}
	restful.SetCompressorProvider(restful.NewSyncPoolCompessors())
	run.Cov["round_trip_cases"] = len(cases)
	run.Cov["history_states"] = len(seqs) * 2
	run.Cov["states"] = len(cases) + len(seqs)*2
	run.Cov["transitions"] = int64(len(cases)*2) + trans
	run.Cov["traces_validated_against_impl"] = int64(len(cases)*2) + trans
	run.Cov["evaluations"] = int64(len(cases)*2) + trans
	run.Cov["distinct_nontrivial"] = len(cases) + len(seqs)*2
	run.Cov["exhaustive"] = true
	run.Cov["rule"] = fmt.Sprintf("E1: values (int64 in {0,-1,2^53+1,MaxInt64,MinInt64} x strings incl. unicode and XML/JSON metacharacters x nested slice of 0-2 elements) written by the real entity writer and read back by the real entity reader, x codec {json, xml} x Content-Type spelling (charset parameters with and without spaces, absent with DefaultRequestContentType) x Content-Encoding {none, gzip, deflate} x pretty-print x provider {sync.Pool, bounded(1)} x target {struct, generic map (JSON: numbers exact)}; E2: every sequence of <= %d bodies over 14 well-formed (incl. a two-member gzip stream) / truncated / byte-flipped / wrongly declared / empty / syntactically broken gzip bodies on one provider: the last body reads exactly as when sent first on a fresh provider, well-formed => value, broken => error, never a panic. Every case is non-trivial.", depth)
	run.Assume = []string{"values in the codecs' common domain (no control characters XML cannot carry)", "nil and empty slices are identified"}
}
