package main

import (
	"bytes"
	"compress/gzip"
	"compress/zlib"
	"fmt"
	"io"
	"sync"

	restful "github.com/emicklei/go-restful/v3"

	"verif/harness/h"
)

// ledger is an instrumenting CompressorProvider wrapped around a real provider: held set keyed by
// object identity; hand-out of a held object, release of an object not held and double release
// are violations.
type ledger struct {
	inner restful.CompressorProvider
	mu    sync.Mutex
	held  map[interface{}]string
	seen  map[interface{}]bool
	// inProvider: objects that are inside a Release call of the real provider right now
	inProvider map[interface{}]bool
	acquired   int
	released   int
	issues     []string
}

func newLedger(inner restful.CompressorProvider) *ledger {
	return &ledger{inner: inner, held: map[interface{}]string{}, seen: map[interface{}]bool{}, inProvider: map[interface{}]bool{}}
}

func (l *ledger) acq(o interface{}, kind string) {
	l.mu.Lock()
	defer l.mu.Unlock()
	l.acquired++
	l.seen[o] = true
	if k, ok := l.held[o]; ok {
		l.issues = append(l.issues, fmt.Sprintf("provider handed out a %s that is still in use (held as %s)", kind, k))
	}
	l.held[o] = kind
}

func (l *ledger) rel(o interface{}, kind string) {
	l.mu.Lock()
	defer l.mu.Unlock()
	l.released++
	if _, ok := l.held[o]; !ok {
		l.issues = append(l.issues, fmt.Sprintf("release of a %s that is not held (second release?)", kind))
		return
	}
	delete(l.held, o)
}

// tripwire is what a released compressor is pointed at: nobody may write through an object that
// went back to its provider (the next user resets it to its own connection first).
type tripwire struct {
	l    *ledger
	kind string
	obj  interface{}
}

func (t *tripwire) Write(p []byte) (int, error) {
	t.l.mu.Lock()
	// (what the provider itself does with an object it owns again - e.g. closing it once more
	// inside Release - is its own business)
	if !t.l.inProvider[t.obj] {
		t.l.issues = append(t.l.issues, fmt.Sprintf("a released %s was used again (%d bytes written through it after its release)", t.kind, len(p)))
	}
	t.l.mu.Unlock()
	return len(p), nil
}

// handBack runs the real provider's release with the object marked as being in the provider's hands.
func (l *ledger) handBack(o interface{}, release func()) {
	l.mu.Lock()
	l.inProvider[o] = true
	l.mu.Unlock()
	release()
	l.mu.Lock()
	delete(l.inProvider, o)
	l.mu.Unlock()
}

func (l *ledger) AcquireGzipWriter() *gzip.Writer {
	w := l.inner.AcquireGzipWriter()
	l.acq(w, "gzip.Writer")
	return w
}

// A released object is detached before it goes back to the real provider (a custom provider may
// do anything with an object it owns again): whatever the framework still writes or reads through
// it after the release is lost, so use-after-release shows up in the decoded body even without a
// second request - and is recorded by the tripwire the object points at from then on. The framework
// resets every object it acquires, so correct code is unaffected.
func (l *ledger) ReleaseGzipWriter(w *gzip.Writer) {
	l.rel(w, "gzip.Writer")
	w.Reset(&tripwire{l, "gzip.Writer", w})
	l.handBack(w, func() { l.inner.ReleaseGzipWriter(w) })
}
func (l *ledger) AcquireGzipReader() *gzip.Reader {
	r := l.inner.AcquireGzipReader()
	l.acq(r, "gzip.Reader")
	return r
}
func (l *ledger) ReleaseGzipReader(r *gzip.Reader) {
	l.rel(r, "gzip.Reader")
	r.Reset(bytes.NewReader(nil))
	l.inner.ReleaseGzipReader(r)
}
func (l *ledger) AcquireZlibWriter() *zlib.Writer {
	w := l.inner.AcquireZlibWriter()
	l.acq(w, "zlib.Writer")
	return w
}
func (l *ledger) ReleaseZlibWriter(w *zlib.Writer) {
	l.rel(w, "zlib.Writer")
	w.Reset(&tripwire{l, "zlib.Writer", w})
	l.handBack(w, func() { l.inner.ReleaseZlibWriter(w) })
}

// report returns the ledger's verdict after all threads finished.
func (l *ledger) report(allFinished bool) []string {
	out := append([]string{}, l.issues...)
	if allFinished && len(l.held) > 0 {
		out = append(out, fmt.Sprintf("%d acquired object(s) never released (acquired %d, released %d)", len(l.held), l.acquired, l.released))
	}
	return out
}

func newProvider(kind string) restful.CompressorProvider {
	switch kind {
	case "bounded0":
		return restful.NewBoundedCachedCompressors(0, 0)
	case "bounded1":
		return restful.NewBoundedCachedCompressors(1, 1)
	case "bounded2":
		return restful.NewBoundedCachedCompressors(2, 2)
	case "bounded21": // more writers than readers
		return restful.NewBoundedCachedCompressors(2, 1)
	case "bounded10":
		return restful.NewBoundedCachedCompressors(1, 0)
	case "bounded12": // more readers than writers
		return restful.NewBoundedCachedCompressors(1, 2)
	}
	return restful.NewSyncPoolCompessors()
}

func gzipBytes(s string) []byte {
	var b bytes.Buffer
	w := gzip.NewWriter(&b)
	w.Write([]byte(s))
	w.Close()
	return b.Bytes()
}

// decodeBody decodes a recorded response according to its Content-Encoding header.
func decodeBody(rec *h.Rec) (string, string, error) {
	enc := rec.Result().Get("Content-Encoding")
	raw := rec.Buf.Bytes()
	switch enc {
	case "":
		return string(raw), enc, nil
	case "gzip":
		zr, err := gzip.NewReader(bytes.NewReader(raw))
		if err != nil {
			return "", enc, fmt.Errorf("gzip header: %v (raw %d bytes)", err, len(raw))
		}
		zr.Multistream(false)
		out, err := io.ReadAll(zr)
		if err != nil {
			return string(out), enc, fmt.Errorf("gzip body: %v (raw %d bytes)", err, len(raw))
		}
		return string(out), enc, nil
	case "deflate":
		zr, err := zlib.NewReader(bytes.NewReader(raw))
		if err != nil {
			return "", enc, fmt.Errorf("zlib header: %v (raw %d bytes)", err, len(raw))
		}
		out, err := io.ReadAll(zr)
		if err != nil {
			return string(out), enc, fmt.Errorf("zlib body: %v (raw %d bytes)", err, len(raw))
		}
		return string(out), enc, nil
	}
	return string(raw), enc, fmt.Errorf("unknown Content-Encoding %q", enc)
}

type c13Ent struct{ A string }
