//go:build verif

package main

import (
	"fmt"
	"strings"

	"github.com/anishathalye/porcupine"
	"github.com/emicklei/go-restful/v3/zverif/vsched"

	"verif/harness/h"
)

func init() {
	e3Scenarios["C12"] = c12Scenarios
	register("C12", checkC12, e3Replay("C12"))
}

type c12In struct {
	Mut bool
	Idx int
}

func c12Scenario(sp c12Spec, jsr, serve bool, bound int) e3Scenario {
	router := "curly"
	if jsr {
		router = "jsr311"
	}
	name := fmt.Sprintf("%s/%s/serve=%v", sp.name, router, serve)
	// expected responses: the real container replayed sequentially, memoised per registration state
	memo := map[string]string{}
	serveOfScenario := serve
	var expected func(state string, req int) string
	// expectedVia: the same, through a given entry point
	expectedVia := func(state string, req int, serve bool) string {
		if serve == serveOfScenario {
			return expected(state, req)
		}
		k := fmt.Sprintf("%s|%d|other-entry", state, req)
		if v, ok := memo[k]; ok {
			return v
		}
		w := sp.world(jsr)
		for _, f := range strings.Split(state, ",") {
			if f != "" {
				var i int
				fmt.Sscan(f, &i)
				w.muts[i]()
			}
		}
		v := c12Do(w.c, serve, w.reqs[req])
		memo[k] = v
		return v
	}
	expected = func(state string, req int) string {
		k := fmt.Sprintf("%s|%d", state, req)
		if v, ok := memo[k]; ok {
			return v
		}
		w := sp.world(jsr)
		for _, f := range strings.Split(state, ",") {
			if f != "" {
				var i int
				fmt.Sscan(f, &i)
				w.muts[i]()
			}
		}
		v := c12Do(w.c, serve, w.reqs[req])
		memo[k] = v
		return v
	}
	mkModel := func(staleMux bool) porcupine.Model {
		return porcupine.Model{
			Init: func() interface{} { return "" },
			Step: func(state, input, output interface{}) (bool, interface{}) {
				st, in := state.(string), input.(c12In)
				if in.Mut {
					if st == "" {
						return true, fmt.Sprint(in.Idx)
					}
					return true, st + "," + fmt.Sprint(in.Idx)
				}
				ok := expected(st, in.Idx) == output.(string)
				if !ok && staleMux && serve {
					// recorded finding F18: ServeHTTP consults the mux and the service list in two
					// separate critical sections; the answer is the dispatcher's own for this state
					ok = expectedVia(st, in.Idx, false) == output.(string)
				}
				if m, self := sp.selfMut[in.Idx]; self {
					// the request's own route function performs mutation m
					if st == "" {
						st = fmt.Sprint(m)
					} else {
						st += "," + fmt.Sprint(m)
					}
				}
				return ok, st
			},
			Equal: func(a, b interface{}) bool { return a.(string) == b.(string) },
		}
	}
	model := mkModel(false)
	return e3Scenario{Name: name, Bound: bound, New: func() *e3Inst {
		w := sp.world(jsr)
		var ops []porcupine.Operation
		var tick int64
		record := func(client int, in c12In, f func() string) {
			tick++
			call := tick
			out := f()
			tick++
			ops = append(ops, porcupine.Operation{ClientId: client, Input: in, Call: call, Output: out, Return: tick})
		}
		inst := &e3Inst{}
		client := 0
		for _, reqs := range sp.servers {
			reqs, cl := reqs, client
			client++
			inst.Bodies = append(inst.Bodies, vsched.Body{Name: "server", Run: func() {
				for _, ri := range reqs {
					ri := ri
					record(cl, c12In{false, ri}, func() string { return c12Do(w.c, serve, w.reqs[ri]) })
				}
			}})
		}
		for _, ms := range sp.mutators {
			ms, cl := ms, client
			client++
			inst.Bodies = append(inst.Bodies, vsched.Body{Name: "mutator", Run: func() {
				for _, mi := range ms {
					mi := mi
					record(cl, c12In{true, mi}, func() string { w.muts[mi](); return "" })
				}
			}})
		}
		inst.Check = func(x *vsched.Execution) []e3Issue {
			if x.Deadlock {
				return nil
			}
			// final probes: when every thread has finished, each request is served once more; these
			// operations follow all others, so they must be explained by the final registration
			// state (an update that returned must not be lost). Requests whose own route function
			// mutates the container are not repeated.
			if !x.Deadlock && len(x.Panics) == 0 {
				for ri := range w.reqs {
					if _, self := sp.selfMut[ri]; self {
						continue
					}
					ri := ri
					record(1000, c12In{false, ri}, func() string { return c12Do(w.c, serve, w.reqs[ri]) })
				}
			}
			if !porcupine.CheckOperations(model, ops) {
				var hs []string
				for _, o := range ops {
					in := o.Input.(c12In)
					if in.Mut {
						hs = append(hs, fmt.Sprintf("[%d,%d] mutation %d", o.Call, o.Return, in.Idx))
					} else {
						hs = append(hs, fmt.Sprintf("[%d,%d] %s -> %s", o.Call, o.Return, w.reqs[in.Idx].Path(), o.Output))
					}
				}
				if serve && porcupine.CheckOperations(mkModel(true), ops) {
					return []e3Issue{{"oracle:stale-mux", "no registration state explains the response through ServeHTTP, but it is what the container's dispatcher answers in a state that existed (the ServeMux was consulted before the change, the service list after it): " + strings.Join(hs, "; ")}}
				}
				return []e3Issue{{"oracle:not-linearizable", "no registration state that existed during the request explains its response: " + strings.Join(hs, "; ")}}
			}
			for _, o := range ops {
				in := o.Input.(c12In)
				if in.Mut {
					continue
				}
				for _, u := range sp.untouched {
					if u == in.Idx && o.Output.(string) != expected("", u) {
						return []e3Issue{{"oracle:untouched", fmt.Sprintf("%s addresses a service and route that no mutation changes; it is answered %s, without any change it is answered %s", w.reqs[u].Path(), o.Output, expected("", u))}}
					}
				}
			}
			return nil
		}
		inst.Outcome = func() string {
			var s []string
			for _, o := range ops {
				if in := o.Input.(c12In); !in.Mut {
					s = append(s, fmt.Sprintf("r%d=%s", in.Idx, o.Output))
				}
			}
			return strings.Join(s, " ")
		}
		return inst
	}}
}

func c12Scenarios(tier string) []e3Scenario {
	var out []e3Scenario
	for _, sp := range c12Specs {
		threads := len(sp.servers) + len(sp.mutators)
		if tier != "thorough" && threads > 2 && sp.name != "two-removes" && sp.name != "two-adds" && sp.name != "unroute-two-servers" && sp.name != "add-from-a-route-function" && sp.name != "two-unroutes-of-the-only-route" && sp.name != "route-vs-unroute" && sp.name != "two-routes" {
			continue
		}
		for _, jsr := range []bool{false, true} {
			for _, serve := range []bool{true, false} {
				bound := 4
				if threads > 2 {
					bound = 2
				}
				if tier == "thorough" {
					bound = 4
					if threads == 2 {
						bound = 10
					}
				}
				out = append(out, c12Scenario(sp, jsr, serve, bound))
			}
		}
	}
	return out
}

func checkC12(run *h.Run) {
	e3RunAll(run, func(v e3Violation) string {
		for _, is := range v.Issues {
			if is.Kind != "oracle:stale-mux" {
				return ""
			}
		}
		return "F18"
	})
	run.Cov["distinct_nontrivial"] = run.Cov["schedules"]
	run.Cov["rule"] = "E3: all schedules of serving threads against mutating threads (Add, Remove, Route, RemoveRoute, a condition function that panics while the container lock is held, the OPTIONS filter walking the service list, a route function that itself adds a service) on the real instrumented package, both routers x both entry points, iterative preemption bounding (quick: 2 threads bound 4, two concurrent mutators + a server bound 2; thorough: 2 threads bound 10, 3 threads bound 4). Oracles on every execution: vector-clock happens-before race detection over every struct field and package variable access of the package, no panic, no deadlock, and linearizability (porcupine) of the call/return history against the real container replayed sequentially (status, route, Allow set), and requests to services and routes no mutation touches are answered as on the initial container. When all threads have finished every request is served once more and appended to the history (an update that returned must not be lost)."
	run.Assume = []string{"sequential consistency at synchronisation granularity; races are reported as violations outright", "field-granular race detection (element-level accesses are covered by the free-running -race pass only)", "net/http.ServeMux internals executed, not instrumented"}
}
