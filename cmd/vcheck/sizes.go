package main

import (
	"fmt"

	rm "verif/harness/refmodel"
)

func init() {
	subcommands["sizes"] = func(args []string) {
		for _, r := range []rm.Router{rm.Curly, rm.JSR311} {
			for _, sp := range routingSweeps(r, args[0], false) {
				fmt.Printf("%s %s tables=%d reqs=%d cases=%.3g\n", r, sp.Name, sp.Tables.N, len(sp.Reqs), float64(sp.Tables.N)*float64(len(sp.Reqs)))
			}
		}
	}
}
