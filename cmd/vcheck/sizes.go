package main

import (
	"fmt"

	rm "verif/harness/refmodel"
)

func init() {
	subcommands["sizes"] = func(args []string) {
		for _, sp := range commonSweeps(args[0]) {
			fmt.Printf("C18 %s tables=%d reqs=%d cases=%.3g\n", sp.Name, sp.Tables.N, len(sp.Reqs), float64(sp.Tables.N)*float64(len(sp.Reqs)))
		}
		for _, r := range []rm.Router{rm.Curly, rm.JSR311} {
			for _, sp := range c03Sweeps(r, args[0]) {
				fmt.Printf("C03 %s %s tables=%d reqs=%d cases=%.3g (x permutations)\n", r, sp.Name, sp.Tables.N, len(sp.Reqs), float64(sp.Tables.N)*float64(len(sp.Reqs)))
			}
			for _, sp := range c17Sweeps(args[0]) {
				fmt.Printf("C17 %s %s tables=%d reqs=%d cases=%.3g\n", r, sp.Name, sp.Tables.N, len(sp.Reqs), float64(sp.Tables.N)*float64(len(sp.Reqs)))
			}
			for _, sp := range routingSweeps(r, args[0], false) {
				fmt.Printf("%s %s tables=%d reqs=%d cases=%.3g\n", r, sp.Name, sp.Tables.N, len(sp.Reqs), float64(sp.Tables.N)*float64(len(sp.Reqs)))
			}
		}
	}
}
