//go:build verif

package main

import (
	"bytes"
	"compress/gzip"
	"encoding/json"
	"errors"
	"fmt"
	"io"
	"net/http"
	"os"
	"os/exec"
	"strings"
	"sync"

	restful "github.com/emicklei/go-restful/v3"
	"github.com/emicklei/go-restful/v3/zverif/vsched"

	"verif/harness/h"
)

func init() {
	register("C10", checkC10, replayC10)
	subcommands["c10worker"] = c10Worker
}

type c10Case struct {
	Shape    [3]int   `json:"shape"`    // container, service, route filters
	Seq      []string `json:"sequence"` // panic positions ("" = normal request) of the requests served before the probe set
	Val      string   `json:"value"`    // string, error, struct
	Recovery string   `json:"recovery"` // off, default, custom
	Enc      string   `json:"encoding"` // "", gzip, deflate
	Provider string   `json:"provider"`
	Serve    bool     `json:"serve_http"`
	JSR      bool     `json:"jsr311"`
	NoRoute  bool     `json:"no_route"` // the panicking request fails routing (404): only container filters run
	// Late: when the recovery settings are applied - "" before the service is added, "after-add",
	// "after-first-request" (one normal request served first), "toggled" (the opposite setting
	// before Add, the real one after a first normal request)
	Late string `json:"recovery_configured,omitempty"`
}

// recSem: what a recovery configuration means. "off-custom" = DoNotRecover(true) then
// RecoverHandler(h); "handler-only" = RecoverHandler(h) on the default (recovery off): a handler
// that is registered but not switched on is never called and the panic propagates.
func recSem(kind string) string {
	switch kind {
	case "off-custom", "handler-only":
		return "off"
	}
	return kind
}

func (w *c10World) applyRecovery(kind string) {
	custom := func(p interface{}, hw http.ResponseWriter) {
		w.recCalls = append(w.recCalls, p)
		hw.WriteHeader(503)
		io.WriteString(hw, fmt.Sprintf("custom-recovered:%v", p))
	}
	switch kind {
	case "off":
		w.c.DoNotRecover(true)
	case "default":
		w.c.DoNotRecover(false)
	case "custom":
		w.c.DoNotRecover(false)
		w.c.RecoverHandler(custom)
	case "off-custom":
		w.c.DoNotRecover(true)
		w.c.RecoverHandler(custom)
	case "handler-only":
		w.c.RecoverHandler(custom)
	}
}

func (c c10Case) String() string {
	return fmt.Sprintf("shape=%v seq=%q value=%s recovery=%s(%s) enc=%q provider=%s serve=%v jsr=%v noroute=%v", c.Shape, c.Seq, c.Val, c.Recovery, c.Late, c.Enc, c.Provider, c.Serve, c.JSR, c.NoRoute)
}

type c10Struct struct{ N int }

var errC10 = errors.New("boom-error")

func c10Value(kind string) interface{} {
	switch kind {
	case "error":
		return errC10
	case "struct":
		return c10Struct{7}
	}
	return "boom-string"
}

// c10Bomb panics while the entity reader decodes into it (a panic raised inside ReadEntity).
type c10Bomb struct{}

var c10BombVal interface{}

func (*c10Bomb) UnmarshalJSON([]byte) error { panic(c10BombVal) }

// c10GzipBody: a well-formed gzip-encoded JSON request body.
var c10GzipBody = func() string {
	var b bytes.Buffer
	zw := gzip.NewWriter(&b)
	io.WriteString(zw, `{"a":1}`)
	zw.Close()
	return b.String()
}()

// panicBody is a request body whose Read panics.
type panicBody struct{ val interface{} }

func (b panicBody) Read([]byte) (int, error) { panic(b.val) }
func (panicBody) Close() error               { return nil }

type c10World struct {
	c        *restful.Container
	led      *ledger
	recCalls []interface{}
	val      interface{}
}

func c10Filter(id string, w *c10World) restful.FilterFunction {
	return func(req *restful.Request, resp *restful.Response, chain *restful.FilterChain) {
		pos := req.Request.Header.Get("X-Panic")
		resp.AddHeader("X-Filter-Trace", id) // which filters ran, in order, is part of every response
		if pos == "pre:"+id {
			panic(w.val)
		}
		chain.ProcessFilter(req, resp)
		if pos == "post:"+id {
			panic(w.val)
		}
	}
}

func c10Build(cs c10Case) *c10World {
	w := &c10World{val: c10Value(cs.Val)}
	w.led = newLedger(newProvider(cs.Provider))
	restful.SetCompressorProvider(w.led)
	c := restful.NewContainer()
	w.c = c
	if cs.JSR {
		c.Router(restful.RouterJSR311{})
	}
	switch cs.Late {
	case "":
		w.applyRecovery(cs.Recovery)
	case "toggled":
		if recSem(cs.Recovery) == "off" {
			w.applyRecovery("default")
		} else {
			w.applyRecovery("off")
		}
	}
	c.EnableContentEncoding(cs.Enc != "")
	for i := 0; i < cs.Shape[0]; i++ {
		c.Filter(c10Filter(fmt.Sprintf("c%d", i), w))
	}
	ws := new(restful.WebService).Path("/s").Produces(restful.MIME_JSON)
	for i := 0; i < cs.Shape[1]; i++ {
		ws.Filter(c10Filter(fmt.Sprintf("s%d", i), w))
	}
	rb := ws.GET("/r").If(func(r *http.Request) bool {
		if r.Header.Get("X-Panic") == "cond" {
			panic(w.val)
		}
		return true
	}).To(func(req *restful.Request, resp *restful.Response) {
		pos := req.Request.Header.Get("X-Panic")
		if pos == "h:pre" {
			panic(w.val)
		}
		if pos == "h:read" || pos == "h:reset" {
			// gzip-encoded body: the panic is raised while a pooled reader is in use - inside the
			// decoder (h:read) or by the body itself on its first Read (h:reset)
			c10BombVal = w.val
			req.ReadEntity(&c10Bomb{})
		}
		if pos == "h:entity" {
			resp.WriteEntity(c13Ent{"entity"})
			panic(w.val)
		}
		io.WriteString(resp, "part1;")
		if pos == "h:mid" {
			panic(w.val)
		}
		io.WriteString(resp, "part2")
	})
	for i := 0; i < cs.Shape[2]; i++ {
		rb.Filter(c10Filter(fmt.Sprintf("r%d", i), w))
	}
	ws.Route(rb)
	c.Add(ws)
	switch cs.Late {
	case "after-add":
		w.applyRecovery(cs.Recovery)
	case "after-first-request", "toggled":
		w.do(cs, "", "s", "r")
		w.applyRecovery(cs.Recovery)
	}
	return w
}

// positions at which a panic can be raised for a shape
func c10Positions(shape [3]int, noRoute bool) []string {
	var out []string
	for i := 0; i < shape[0]; i++ {
		out = append(out, fmt.Sprintf("pre:c%d", i), fmt.Sprintf("post:c%d", i))
	}
	if noRoute {
		return out
	}
	for i := 0; i < shape[1]; i++ {
		out = append(out, fmt.Sprintf("pre:s%d", i), fmt.Sprintf("post:s%d", i))
	}
	for i := 0; i < shape[2]; i++ {
		out = append(out, fmt.Sprintf("pre:r%d", i), fmt.Sprintf("post:r%d", i))
	}
	return append(out, "h:pre", "h:mid", "h:entity", "cond", "h:read", "h:reset")
}

type c10Resp struct {
	Code       int
	Enc        string
	Body       string
	DecErr     string
	Escaped    interface{}
	EscapedSet bool
	Trace      []string
}

func (r c10Resp) key() string {
	return fmt.Sprintf("%d enc=%q body=%q decerr=%q escaped=%v filters=%v", r.Code, r.Enc, r.Body, r.DecErr, r.Escaped, r.Trace)
}

func (w *c10World) do(cs c10Case, pos string, segs ...string) c10Resp {
	q := h.Req{Method: "GET", Segs: segs}
	if pos != "" {
		q.Hdr = append(q.Hdr, [2]string{"X-Panic", pos})
	}
	if cs.Enc != "" {
		q.Hdr = append(q.Hdr, [2]string{"Accept-Encoding", cs.Enc})
	}
	if pos == "h:read" || pos == "h:reset" {
		q.Hdr = append(q.Hdr, [2]string{"Content-Type", "application/json"}, [2]string{"Content-Encoding", "gzip"})
		q.Body = c10GzipBody
	}
	hreq := q.HTTP()
	if pos == "h:reset" {
		hreq.Body = panicBody{w.val}
	}
	rec := h.NewRec()
	var r c10Resp
	func() {
		defer func() {
			if p := recover(); p != nil {
				r.Escaped, r.EscapedSet = p, true
			}
		}()
		if cs.Serve {
			w.c.ServeHTTP(rec, hreq)
		} else {
			w.c.Dispatch(rec, hreq)
		}
	}()
	r.Code = rec.Code
	r.Trace = rec.HeaderMap["X-Filter-Trace"]
	body, enc, err := decodeBody(rec)
	r.Enc, r.Body = enc, body
	if err != nil {
		r.DecErr = err.Error()
	}
	// the default recover handler writes a stack trace: keep the first line only
	// (the default recover handler appends a stack trace; bodies of panicking requests are only
	// inspected, never compared as a whole)
	return r
}

func (w *c10World) segsFor(cs c10Case) []string {
	if cs.NoRoute {
		return []string{"s", "missing"}
	}
	return []string{"s", "r"}
}

// probeSet: what every following request / operation must look like.
func (w *c10World) probeSet(cs c10Case) []string {
	var out []string
	out = append(out, "normal: "+w.do(cs, "", "s", "r").key())
	t := new(restful.WebService).Path("/t")
	t.Route(t.GET("/x").To(func(req *restful.Request, resp *restful.Response) { io.WriteString(resp, "t-x") }))
	w.c.Add(t)
	out = append(out, "after Add: "+w.do(cs, "", "t", "x").key())
	w.c.Remove(t)
	out = append(out, "after Remove: "+w.do(cs, "", "t", "x").key())
	out = append(out, "normal again: "+w.do(cs, "", "s", "r").key())
	return out
}

// wroteBefore: had the chain produced output before the panic at this position?
func wroteBefore(pos string) bool {
	return strings.HasPrefix(pos, "post:") || pos == "h:mid" || pos == "h:entity"
}

type c10Issue struct {
	Class string  `json:"class"`
	Msg   string  `json:"msg"`
	Case  c10Case `json:"case"`
}

// c10Run executes one case under the controlled scheduler (single thread) so that a lock left
// held shows up as a deadlock verdict instead of a hang.
func c10Run(cs c10Case) []c10Issue {
	var issues []c10Issue
	bad := func(class, format string, a ...interface{}) {
		issues = append(issues, c10Issue{class, fmt.Sprintf("%v : ", cs) + fmt.Sprintf(format, a...), cs})
	}
	e3RestoreGlobals() // cases are independent of each other: package-level state starts from the same values
	w := c10Build(cs)
	fresh := c10Build(cs) // note: installs its own ledger provider; re-install w's below
	restful.SetCompressorProvider(w.led)
	var resps []c10Resp
	var callsAfter []int
	var probes []string
	finished := false
	body := vsched.Body{Name: "requests", Run: func() {
		for _, pos := range cs.Seq {
			if pos == "" {
				resps = append(resps, w.do(cs, "", "s", "r"))
			} else {
				resps = append(resps, w.do(cs, pos, w.segsFor(cs)...))
			}
			callsAfter = append(callsAfter, len(w.recCalls))
		}
		probes = w.probeSet(cs)
		finished = true
	}}
	x := vsched.RunOnce([]vsched.Body{body}, nil, false, 0)
	if x.Deadlock || !finished {
		bad("lock-left-held", "after the requests %q the container blocks: %v %v", cs.Seq, x.Stuck, x.Panics)
		return issues
	}
	val := w.val
	calls := 0
	for i, pos := range cs.Seq {
		r := resps[i]
		if pos == "" {
			if r.Code != 200 || r.Body != "part1;part2" || r.EscapedSet || r.DecErr != "" {
				bad("normal-request", "normal request #%d answered %s", i, r.key())
			}
			continue
		}
		if r.DecErr != "" {
			bad("undecodable", "request #%d panicking at %s: the body does not decode: %s", i, pos, r.DecErr)
		}
		if recSem(cs.Recovery) == "off" {
			if len(w.recCalls) != 0 {
				bad("recover-handler", "recovery is switched off, yet the registered recover handler was called: %v", w.recCalls)
			}
			if !r.EscapedSet || r.Escaped != val {
				bad("panic-value", "recovery off, panic at %s: the caller saw %v (escaped=%v), expected the original value %v", pos, r.Escaped, r.EscapedSet, val)
			}
			continue
		}
		if r.EscapedSet {
			bad("panic-escaped", "recovery on, panic at %s escaped the container: %v", pos, r.Escaped)
			continue
		}
		calls++
		if cs.Recovery == "custom" {
			if callsAfter[i] != calls || w.recCalls[calls-1] != val {
				bad("recover-handler", "panic at %s: %d recover handler call(s) so far (%v), expected %d, the last with %v", pos, callsAfter[i], w.recCalls, calls, val)
			}
		}
		if cs.Recovery == "custom" {
			wantStatus, wantBody := 503, fmt.Sprintf("custom-recovered:%v", val)
			if !wroteBefore(pos) {
				if r.Code != wantStatus || r.Body != wantBody {
					bad("recovered-response", "panic at %s before any output: client sees %s, expected status %d body %q", pos, r.key(), wantStatus, wantBody)
				}
			} else if !strings.HasSuffix(r.Body, wantBody) {
				bad("recovered-response", "panic at %s after output: body %q does not end with what the recover handler wrote %q", pos, r.Body, wantBody)
			}
		} else {
			// default handler: 500 and a body that names the panic value (its wording is not part of the property)
			if !wroteBefore(pos) && r.Code != 500 {
				bad("recovered-response", "panic at %s before any output: client sees %s, expected the default handler's status 500", pos, r.key())
			}
			if n := strings.Count(r.Body, fmt.Sprint(val)); n != 1 {
				bad("recovered-response", "panic at %s: body %q names the panic value (%v) %d times, expected exactly once (the default recover handler reports this panic, and only this one)", pos, r.Body, val, n)
			}
		}
	}
	for _, m := range w.led.report(true) {
		bad("ledger", "%s", m)
	}
	// the probe set must be answered exactly as by a container that never saw a panic
	restful.SetCompressorProvider(fresh.led)
	var want []string
	fb := vsched.Body{Name: "fresh", Run: func() { want = fresh.probeSet(cs) }}
	vsched.RunOnce([]vsched.Body{fb}, nil, false, 0)
	if strings.Join(probes, "\n") != strings.Join(want, "\n") {
		bad("not-usable-afterwards", "after %q the probe set is answered %q ; a fresh container answers %q", cs.Seq, probes, want)
	}
	return issues
}

func c10Cases(tier string) []c10Case {
	var out []c10Case
	shapes := [][3]int{{0, 0, 0}, {1, 0, 0}, {0, 1, 0}, {0, 0, 1}, {1, 1, 0}, {1, 0, 1}, {0, 1, 1}, {1, 1, 1}, {2, 0, 0}, {0, 0, 2}}
	if tier == "thorough" {
		shapes = nil
		for a := 0; a <= 2; a++ {
			for b := 0; b <= 2; b++ {
				for c := 0; c <= 2; c++ {
					shapes = append(shapes, [3]int{a, b, c})
				}
			}
		}
		shapes = append(shapes, [3]int{3, 1, 1})
	}
	for _, sh := range shapes {
		for _, noRoute := range []bool{false, true} {
			for _, pos := range c10Positions(sh, noRoute) {
				for _, val := range []string{"string", "error", "struct"} {
					for _, rec := range []string{"off", "default", "custom"} {
						for _, enc := range []string{"", "gzip", "deflate"} {
							for _, prov := range []string{"syncpool", "bounded1"} {
								for _, serve := range []bool{false, true} {
									for _, jsr := range []bool{false, true} {
										if tier != "thorough" {
											// quick: all single dimensions complete, product thinned on value x router x provider
											if val != "string" && (jsr || prov != "bounded1" || enc == "deflate") {
												continue
											}
											if jsr && (enc == "deflate" || prov == "syncpool") {
												continue
											}
										}
										if enc == "" && prov != "bounded1" {
											continue // the provider is irrelevant without encoding
										}
										out = append(out, c10Case{Shape: sh, Seq: []string{pos}, Val: val, Recovery: rec, Enc: enc, Provider: prov, Serve: serve, JSR: jsr, NoRoute: noRoute})
									}
								}
							}
						}
					}
				}
			}
		}
	}
	// configuration order: every recovery configuration (incl. a handler registered while recovery
	// is off) x the moment it is applied
	for _, noRoute := range []bool{false, true} {
		for _, pos := range c10Positions([3]int{1, 1, 1}, noRoute) {
			for _, rec := range []string{"off", "default", "custom", "off-custom", "handler-only"} {
				for _, late := range []string{"", "after-add", "after-first-request", "toggled"} {
					if late == "" && (rec == "off" || rec == "default" || rec == "custom") {
						continue // covered above
					}
					if late == "toggled" && rec == "handler-only" {
						continue // registering a handler does not switch anything: there is nothing to toggle back
					}
					for _, enc := range []string{"", "gzip"} {
						for _, serve := range []bool{false, true} {
							out = append(out, c10Case{Shape: [3]int{1, 1, 1}, Seq: []string{pos}, Val: "string", Recovery: rec, Enc: enc, Provider: "bounded1", Serve: serve, NoRoute: noRoute, Late: late})
						}
					}
				}
			}
		}
	}
	// E2: sequences of <= 3 requests over {normal, panic@p} then the probe set
	depth := 2
	if tier == "thorough" {
		depth = 3
	}
	sh := [3]int{1, 1, 1}
	alphabet := append([]string{""}, c10Positions(sh, false)...)
	var seqs [][]string
	var rec func(cur []string)
	rec = func(cur []string) {
		if len(cur) >= 2 {
			seqs = append(seqs, append([]string{}, cur...))
		}
		if len(cur) == depth {
			return
		}
		for _, a := range alphabet {
			rec(append(cur, a))
		}
	}
	rec(nil)
	for _, seq := range seqs {
		for _, recov := range []string{"off", "custom", "default"} {
			for _, serve := range []bool{false, true} {
				out = append(out, c10Case{Shape: sh, Seq: seq, Val: "error", Recovery: recov, Enc: "gzip", Provider: "bounded1", Serve: serve})
			}
		}
	}
	return out
}

func c10Worker(args []string) {
	e3Quiet()
	var shard, n int
	fmt.Sscan(args[1], &shard)
	fmt.Sscan(args[2], &n)
	cases := c10Cases(args[0])
	var issues []c10Issue
	count := 0
	for i := shard; i < len(cases); i += n {
		issues = append(issues, c10Run(cases[i])...)
		count++
		if len(issues) > 200 {
			break
		}
	}
	data, _ := json.Marshal(map[string]interface{}{"cases": count, "issues": issues})
	os.Stdout.Write(data)
}

func replayC10(detail json.RawMessage) error {
	var cs c10Case
	if err := json.Unmarshal(detail, &cs); err != nil {
		return err
	}
	e3Quiet()
	issues := c10Run(cs)
	for _, is := range issues {
		fmt.Println(is.Class+":", is.Msg)
	}
	if len(issues) > 0 {
		return fmt.Errorf("%s", issues[0].Msg)
	}
	return nil
}

func checkC10(run *h.Run) {
	cases := c10Cases(run.Tier)
	n := h.Workers()
	self, _ := os.Executable()
	type out struct {
		Cases  int        `json:"cases"`
		Issues []c10Issue `json:"issues"`
	}
	results := make([]out, n)
	var wg sync.WaitGroup
	for s := 0; s < n; s++ {
		wg.Add(1)
		go func(s int) {
			defer wg.Done()
			cmd := exec.Command(self, "c10worker", run.Tier, fmt.Sprint(s), fmt.Sprint(n))
			var ob, eb bytes.Buffer
			cmd.Stdout, cmd.Stderr = &ob, &eb
			if err := cmd.Run(); err != nil {
				run.Broken(fmt.Sprintf("worker %d failed: %v: %s", s, err, tailStr(eb.String(), 1500)))
				return
			}
			if err := json.Unmarshal(ob.Bytes(), &results[s]); err != nil {
				run.Broken(fmt.Sprintf("worker %d output unreadable: %v", s, err))
			}
		}(s)
	}
	wg.Wait()
	total := 0
	for _, r := range results {
		total += r.Cases
		for _, is := range r.Issues {
			cs := is.Case
			run.Violate(is.Class, "", is.Msg, cs, func() bool { return len(c10Run(cs)) > 0 })
		}
	}
	single, seq := 0, 0
	for i, c := range cases {
		if len(c.Seq) == 1 {
			single++
		} else {
			seq++
		}
		if i%1999 == 0 {
			run.Sample(map[string]any{"case": c.String()})
		}
	}
	run.Cov["crash_point_cases"] = single
	run.Cov["sequence_cases"] = seq
	run.Cov["states"] = total
	run.Cov["transitions"] = total * 6
	run.Cov["traces_validated_against_impl"] = total
	run.Cov["evaluations"] = total
	run.Cov["distinct_nontrivial"] = total
	run.Cov["exhaustive"] = total == len(cases)
	run.Cov["rule"] = "Crash-point enumeration (E1) on the instrumented real package: chain shapes (n_c,n_s,n_r) in {0,1}^3 + (2,0,0) + (0,0,2) (thorough: all of {0,1,2}^3 and (3,1,1)) x every panic position (each filter before passing on / after the downstream returned, handler before output / after partial output / after WriteEntity, the route's condition function; also on a request that fails routing) x panic value {string, error, struct} x recovery {off, default, custom 503 handler} x encoding {off, gzip, deflate} x provider {sync.Pool, bounded(1)} under a ledger x entry point x router (quick: product thinned on value x router x provider, every single dimension complete; thorough: full product). Configuration order: shape (1,1,1) x every position x recovery {off, default, custom, DoNotRecover(true)+RecoverHandler, RecoverHandler alone on the default} x moment the setting is applied {before Add, after Add, after a first request, the opposite setting first and toggled after a first request} x encoding {off, gzip} x entry point. E2: every sequence of 2 (thorough: up to 3) requests over {normal, panic at each position} followed by the probe set. Each case runs under the controlled scheduler as a single thread so that a lock left held is a deadlock verdict; afterwards a probe set (normal request, Add + request, Remove + request, normal again) must equal a fresh container's answers. Every case is non-trivial."
	run.Assume = []string{"panics of plain http.Handlers registered through Handle are outside the statement", "default recover handler: only the first line of its output (the panic value) is compared, not the stack trace"}
}
