// vcheck runs one property check: vcheck run <Cxx> <quick|thorough> | vcheck replay <file>.
// The binary is rebuilt from /repo's current working tree by bin/vcheck on every invocation.
package main

import (
	"encoding/json"
	"fmt"
	"os"
	"runtime/debug"
	"sort"

	"verif/harness/h"
	"verif/harness/rs"
)

type checkFn func(run *h.Run)
type replayFn func(detail json.RawMessage) error

var checks = map[string]checkFn{}
var replays = map[string]replayFn{}

// freeruns: free-running (uncontrolled) versions of the concurrent scenario bodies, run by a
// -race build of this binary as a supplementary pass.
var freeruns = map[string]func(iters int){}

// subcommands lets tagged files add commands (e.g. the E3 worker).
var subcommands = map[string]func(args []string){}

func register(id string, c checkFn, r replayFn) {
	checks[id] = c
	if r != nil {
		replays[id] = r
	}
}

func main() {
	debug.SetGCPercent(400)
	debug.SetMemoryLimit(12 << 30) // soft limit: collect harder instead of growing without bound
	if len(os.Args) < 2 {
		usage()
	}
	switch os.Args[1] {
	case "list":
		ids := make([]string, 0, len(checks))
		for k := range checks {
			ids = append(ids, k)
		}
		sort.Strings(ids)
		for _, k := range ids {
			fmt.Println(k)
		}
	case "run":
		if len(os.Args) < 4 {
			usage()
		}
		id, tier := os.Args[2], os.Args[3]
		// the tier named on the command line wins; VERIF_TIER only fills in for a missing argument (bin/vcheck)
		c, ok := checks[id]
		if !ok {
			fmt.Fprintf(os.Stderr, "vcheck: check %s is not part of this build\n", id)
			os.Exit(2)
		}
		run := h.NewRun(id, tier)
		c(run)
		os.Exit(run.Finish())
	case "replay":
		if len(os.Args) < 3 {
			usage()
		}
		data, err := os.ReadFile(os.Args[2])
		if err != nil {
			fmt.Fprintln(os.Stderr, err)
			os.Exit(2)
		}
		var v struct {
			Property string          `json:"property"`
			Class    string          `json:"class"`
			Message  string          `json:"message"`
			Detail   json.RawMessage `json:"detail"`
		}
		if err := json.Unmarshal(data, &v); err != nil {
			fmt.Fprintln(os.Stderr, err)
			os.Exit(2)
		}
		r, ok := replays[v.Property]
		if !ok {
			fmt.Fprintf(os.Stderr, "vcheck: no replay for %s in this build\n", v.Property)
			os.Exit(2)
		}
		fmt.Printf("replaying %s class=%s: %s\n", v.Property, v.Class, v.Message)
		if err := r(v.Detail); err != nil {
			fmt.Printf("REPRODUCED: %v\n", err)
			os.Exit(1)
		}
		fmt.Println("not reproduced (the case now satisfies the oracle)")
	case "freerun":
		f, ok := freeruns[os.Args[2]]
		if !ok {
			fmt.Fprintln(os.Stderr, "no free-running pass for", os.Args[2])
			os.Exit(2)
		}
		iters := 100
		if len(os.Args) > 3 {
			fmt.Sscan(os.Args[3], &iters)
		}
		quietPlain()
		f(iters)
	default:
		if f, ok := subcommands[os.Args[1]]; ok {
			f(os.Args[2:])
			return
		}
		usage()
	}
}

func quietPlain() { rs.Quiet(false) }

func usage() {
	fmt.Fprintln(os.Stderr, "usage: vcheck run <Cxx> <quick|thorough> | vcheck replay <file> | vcheck list")
	os.Exit(2)
}
