package main

import (
	"fmt"
	"net/http"
	"strings"
	"sync/atomic"

	restful "github.com/emicklei/go-restful/v3"

	"verif/harness/h"
	rm "verif/harness/refmodel"
	"verif/harness/rs"
)

func init() { register("C04", checkC04, replayRouting(replayC04)) }

// judgeC04: for the invoked route, PathParameters() equals the reference bindings of the full
// template, and substituting them back reproduces the request path up to the trailing slash.
func judgeC04(p *rm.Parsed, mq rm.Request, r rm.Router, o rs.Outcome) string {
	if len(o.Invoked) != 1 {
		return ""
	}
	inv := o.Invoked[0]
	si, ri, ok := p.RouteByID(inv.ID)
	if !ok {
		return "unknown route id"
	}
	toks := p.Full[si][ri]
	var want map[string]string
	matched := false
	for _, reading := range r.Readings() {
		if matched, want = rm.PathMatches(toks, mq.Path, reading); matched {
			break
		}
	}
	if !matched {
		return "" // an unsound invocation is C01's violation, not C04's
	}
	if !h.EqMap(inv.Params, want) {
		return fmt.Sprintf("route #%d %q on path %q: PathParameters()=%v, expected %v", inv.ID, p.FullTemplate(si, ri), mq.Path, inv.Params, want)
	}
	tail := len(toks) > 0 && toks[len(toks)-1].Kind == rm.Tail
	norm := "/" + strings.Join(rm.Segments(mq.Path, r, tail), "/")
	if back := rm.Substitute(toks, inv.Params); back != norm {
		return fmt.Sprintf("route #%d %q: substituting %v gives %q, request path is %q", inv.ID, p.FullTemplate(si, ri), inv.Params, back, norm)
	}
	return ""
}

// f16: signature of the recorded finding F16 - RouterJSR311 binds by capture-group position; a
// variable whose regular expression contains its own capturing group shifts the groups, so the
// variables after it are bound to the wrong submatch.
func f16(p *rm.Parsed, r rm.Router, o rs.Outcome) string {
	if r != rm.JSR311 || len(o.Invoked) != 1 {
		return ""
	}
	si, ri, ok := p.RouteByID(o.Invoked[0].ID)
	if !ok {
		return ""
	}
	toks := p.Full[si][ri]
	for i, t := range toks {
		if t.Kind == rm.Re && strings.Contains(t.Expr, "(") && i < len(toks)-1 {
			return "F16"
		}
	}
	return ""
}

func dupVarNames(p *rm.Parsed) bool {
	for _, fr := range p.Full {
		for _, toks := range fr {
			seen := map[string]bool{}
			for _, t := range toks {
				if t.Kind != rm.Lit {
					if seen[t.Name] {
						return true
					}
					seen[t.Name] = true
				}
			}
		}
	}
	return false
}

func replayC04(rc routingCase, o rs.Outcome) error {
	if why := judgeC04(rm.Parse(rc.Table), rs.ModelReq(rc.Req), routerOf(rc.Router), o); why != "" {
		return fmt.Errorf("%s", why)
	}
	return nil
}

func checkC04(run *h.Run) {
	rs.Quiet(false)
	all := map[string]sweepStats{}
	var order []string
	shapes := h.NewDistinctSet(200000)
	for _, router := range []rm.Router{rm.Curly, rm.JSR311} {
		for _, sp := range routingSweeps(router, run.Tier, false) {
			if sp.Name[0] != 'P' {
				continue // path sweeps only
			}
			for _, mode := range []string{"", "first", "late"} {
				switched := mode != ""
				if switched && sp.Name != "P1" {
					continue
				}
				sp, switched, mode := sp, switched, mode
				name := fmt.Sprintf("%s/%s/switched=%v", router, sp.Name, switched)
				if mode == "late" {
					name += "(after serving)"
				}
				order = append(order, name)
				opt := rs.BuildOpt{Router: router, Switched: switched}
				other := rm.JSR311
				if router == rm.JSR311 {
					other = rm.Curly
				}
				// late: the container serves the whole request list under the other router first and
				// is switched to the router under test only then
				build := func(t rm.Table, warm []*http.Request) *rs.Built {
					if mode != "late" {
						return rs.Build(t, opt)
					}
					b := rs.Build(t, rs.BuildOpt{Router: other})
					if b.Panic != "" {
						return b
					}
					for _, hr := range warm {
						b.Do(hr, h.NewRec(), false)
					}
					if router == rm.JSR311 {
						b.C.Router(restful.RouterJSR311{})
					} else {
						b.C.Router(restful.CurlyRouter{})
					}
					b.Router = router
					return b
				}
				st := runSweep(run, sp, func(w *worker, t rm.Table, p *rm.Parsed, st *sweepStats) {
					if dupVarNames(p) {
						return // a template declaring one variable name twice has no well-defined binding
					}
					b := build(t, w.https)
					if b.Panic != "" {
						atomic.AddInt64(&st.buildPanics, 1)
						return
					}
					var cases, disp, nontriv int64
					for qi := range w.reqs {
						if w.reqs[qi].Method != "GET" && w.reqs[qi].Method != "POST" {
							continue // route methods are GET and POST; other methods never invoke
						}
						o := b.Do(w.https[qi], w.rec, false)
						disp++
						cases++
						if len(o.Invoked) != 1 {
							continue
						}
						nontriv++
						if nontriv%257 == 0 {
							shapes.Add(fmt.Sprintf("%s %v", p.FullTemplate(0, 0), len(o.Invoked[0].Params)))
						}
						if why := judgeC04(p, w.mreqs[qi], router, o); why != "" {
							rc := routingCase{Sweep: sp.Name, Router: router.String(), Table: t, Req: w.reqs[qi], Observed: o, Switched: switched, Late: mode == "late", Other: map[string]any{"switched": switched, "mode": mode}}
							qi := qi
							run.Violate("params/"+router.String(), f16(p, router, o), fmt.Sprintf("[%s switched=%v %s] %v ; %v : %s", router, switched, mode, t, w.reqs[qi], why), rc, func() bool {
								b2 := build(t, w.https)
								return judgeC04(p, w.mreqs[qi], router, b2.Do(w.reqs[qi].HTTP(), h.NewRec(), false)) != ""
							})
						} else if nontriv%9973 == 0 {
							run.Sample(map[string]any{"sweep": name, "table": t.String(), "request": w.reqs[qi].String(), "params": o.Invoked[0].Params})
						}
					}
					atomic.AddInt64(&st.cases, cases)
					atomic.AddInt64(&st.dispatches, disp)
					atomic.AddInt64(&st.nontrivial, nontriv)
				})
				all[name] = st
			}
		}
	}
	cases, disp, nontriv := sweepCoverage(run, all, order)
	run.Cov["states"] = cases
	run.Cov["transitions"] = disp
	run.Cov["traces_validated_against_impl"] = disp
	run.Cov["evaluations"] = disp
	run.Cov["distinct_nontrivial"] = nontriv
	run.Cov["exhaustive"] = true
	run.Cov["rule"] = "E1 path sweeps (P1 single-route, P2 two-route tables; thorough P3), GET/POST requests, both routers on the templates each supports; P1 additionally on containers whose router was switched from the other router first (configuration history), and on containers that served the whole request list under the other router before they were switched. Non-trivial: a route function ran, so bindings were compared with the reference bindings of the full template (root variables included) and substituted back."
	run.Assume = []string{"reference bindings of DESIGN.md §5", "alphabets bound the claim"}
}
