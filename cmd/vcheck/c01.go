package main

import (
	"fmt"
	"sync/atomic"

	"verif/harness/h"
	rm "verif/harness/refmodel"
	"verif/harness/rs"
)

func init() { register("C01", checkC01, replayRouting(replayC01)) }

// judgeC01 is pure soundness: evaluated only when a route function ran. lg is the event log of
// that dispatch (conditions evaluated, selected route as seen by the container filter).
func judgeC01(p *rm.Parsed, mq rm.Request, r rm.Router, o rs.Outcome, lg *rs.Log) string {
	if len(o.Invoked) == 0 {
		return ""
	}
	if len(o.Invoked) > 1 {
		return fmt.Sprintf("%d route functions ran for one request", len(o.Invoked))
	}
	inv := o.Invoked[0]
	si, ri, ok := p.RouteByID(inv.ID)
	if !ok {
		return "unknown route id"
	}
	decl := p.T.Svcs[si].Effective(p.T.Svcs[si].Routes[ri])
	if decl.Method != mq.Method {
		return fmt.Sprintf("route #%d has method %s but the request method is %s", inv.ID, decl.Method, mq.Method)
	}
	admitted := false
	for _, reading := range r.Readings() { // base reading first, then the lenient ones (undecided points)
		if ok, _ := rm.PathMatches(p.Full[si][ri], mq.Path, reading); ok {
			admitted = true
			break
		}
	}
	if !admitted {
		return fmt.Sprintf("route #%d template %q does not admit path %q", inv.ID, p.FullTemplate(si, ri), mq.Path)
	}
	if !rm.ConsumesAdmits(decl, mq.CT) {
		return fmt.Sprintf("route #%d Consumes %v does not admit Content-Type %q", inv.ID, decl.Consumes, mq.CT)
	}
	if !rm.ProducesSatisfies(decl, mq.Accept) {
		return fmt.Sprintf("route #%d Produces %v cannot satisfy Accept %q", inv.ID, decl.Produces, mq.Accept)
	}
	for ci, c := range decl.If {
		if !c.Eval(mq.XC) {
			return fmt.Sprintf("route #%d ran although its condition %d (%s) is false for this request", inv.ID, ci, c)
		}
		if lg != nil {
			seen := false
			for _, cc := range lg.Conds {
				if cc.Route == inv.ID && cc.Idx == ci {
					seen = true
					if !cc.Result {
						return fmt.Sprintf("route #%d ran although its condition %d returned false", inv.ID, ci)
					}
				}
			}
			if !seen {
				return fmt.Sprintf("route #%d ran but its condition %d was never evaluated", inv.ID, ci)
			}
		}
	}
	full := p.FullTemplate(si, ri)
	if inv.SelPath != full || inv.SelRPath != full || inv.SelMethod != decl.Method {
		return fmt.Sprintf("route #%d (%s %s) ran but the handler sees selected route %s %q / %q", inv.ID, decl.Method, full, inv.SelMethod, inv.SelPath, inv.SelRPath)
	}
	if lg != nil {
		for i, fs := range lg.FilterSel {
			if fs != full || lg.FilterSelM[i] != decl.Method {
				return fmt.Sprintf("route #%d (%s %s) ran but the container filter saw selected route %s %q", inv.ID, decl.Method, full, lg.FilterSelM[i], fs)
			}
		}
	}
	return ""
}

// judgeNested: the outer route function's view before and after its nested dispatch, and the
// nested invocation itself, must each be sound.
func judgeNested(p *rm.Parsed, q h.Req, r rm.Router, o rs.Outcome) string {
	outer := rs.ModelReq(q)
	inner := rm.Request{Method: "GET", Path: q.Header("X-Nest")}
	for i, inv := range o.Invoked {
		mq := inner
		if i == 0 || inv.Phase == "after-nested" {
			mq = outer
		}
		one := rs.Outcome{Status: 200, Invoked: []rs.Invocation{inv}}
		if why := judgeC01(p, mq, r, one, nil); why != "" {
			return fmt.Sprintf("record %d (%s): %s", i, inv.Phase, why)
		}
	}
	first, last := o.Invoked[0], o.Invoked[len(o.Invoked)-1]
	if last.Phase == "after-nested" && (first.ID != last.ID || first.SelPath != last.SelPath || first.SelMethod != last.SelMethod || !h.EqMap(first.Params, last.Params)) {
		return fmt.Sprintf("after its nested dispatch route #%d sees selected route %s %q params %v, before it saw %s %q params %v", first.ID, last.SelMethod, last.SelPath, last.Params, first.SelMethod, first.SelPath, first.Params)
	}
	return ""
}

func replayC01(rc routingCase, o rs.Outcome) error {
	p := rm.Parse(rc.Table)
	if rc.Sweep == "N2" {
		b := rs.Build(rc.Table, rs.BuildOpt{Router: routerOf(rc.Router), Nest: true})
		o = b.Do(rc.Req.HTTP(), h.NewRec(), false)
		fmt.Printf("with nesting enabled: %+v\n", o.Invoked)
		if why := judgeNested(p, rc.Req, routerOf(rc.Router), o); why != "" {
			return fmt.Errorf("%s", why)
		}
		return nil
	}
	if why := judgeC01(p, rs.ModelReq(rc.Req), routerOf(rc.Router), o, nil); why != "" {
		return fmt.Errorf("%s", why)
	}
	return nil
}

func checkC01(run *h.Run) {
	rs.Quiet(false)
	outcomes := h.NewDistinctSet(100000)
	all := map[string]sweepStats{}
	var order []string
	var invoked int64
	for _, router := range []rm.Router{rm.Curly, rm.JSR311} {
		for _, sp := range routingSweeps(router, run.Tier, false) {
			sp := sp
			name := fmt.Sprintf("%s/%s", router, sp.Name)
			order = append(order, name)
			st := runSweep(run, sp, func(w *worker, t rm.Table, p *rm.Parsed, st *sweepStats) {
				b := rs.Build(t, rs.BuildOpt{Router: router, Filter: true, Longhand: true, Reuse: sp.Name == "R2"})
				if b.Panic != "" {
					atomic.AddInt64(&st.buildPanics, 1)
					return // construction failures are C11's and C02's business
				}
				var cases, disp, nontriv int64
				for qi := range w.reqs {
					for _, serve := range []bool{false, true} {
						if serve && (sp.Name != "P1" && sp.Name != "H1" || w.reqs[qi].Empty) {
							continue
						}
						o := b.Do(w.https[qi], w.rec, serve)
						disp++
						if !serve {
							cases++
						}
						if len(o.Invoked) == 0 && o.Panic == "" {
							continue
						}
						if o.Panic != "" {
							continue // panics are C02's oracle
						}
						nontriv++
						lgc := b.Log
						if sp.Name == "R2" {
							lgc = nil // shared condition closures log under the first route's id
						}
						if why := judgeC01(p, w.mreqs[qi], router, o, lgc); why != "" {
							rc := routingCase{Sweep: sp.Name, Router: router.String(), Table: t, Req: w.reqs[qi], Serve: serve, Filter: true, Longhand: true, Reuse: sp.Name == "R2", Observed: o, Tier: run.Tier, ReqIndex: qi}
							qi, serve := qi, serve
							run.ViolateH("unsound-invocation/"+router.String(), "", fmt.Sprintf("[%s serve=%v] %v ; %v : %s", router, serve, t, w.reqs[qi], why), rc, func() bool {
								b2 := rs.Build(t, rs.BuildOpt{Router: router, Filter: true, Longhand: true, Reuse: sp.Name == "R2"})
								o2 := b2.Do(w.reqs[qi].HTTP(), h.NewRec(), serve)
								return judgeC01(p, w.mreqs[qi], router, o2, b2.Log) != ""
							}, func() bool {
								b3 := rs.Build(t, rs.BuildOpt{Router: router, Filter: true, Longhand: true, Reuse: sp.Name == "R2"})
								var o3 rs.Outcome
								for k := 0; k <= qi; k++ {
									o3 = b3.Do(w.reqs[k].HTTP(), h.NewRec(), serve)
								}
								return judgeC01(p, w.mreqs[qi], router, o3, b3.Log) != ""
							})
						} else if nontriv%4099 == 0 {
							outcomes.Add(fmt.Sprintf("%s|%s", p.FullTemplate(0, 0), o.Key()))
							run.Sample(map[string]any{"sweep": name, "table": t.String(), "request": w.reqs[qi].String(), "ran": o.Key()})
						}
					}
				}
				atomic.AddInt64(&st.cases, cases)
				atomic.AddInt64(&st.dispatches, disp)
				atomic.AddInt64(&st.nontrivial, nontriv)
				atomic.AddInt64(&invoked, nontriv)
			})
			all[name] = st
		}
	}
	// (N2) nested dispatch: a route function dispatches another request on the same container and
	// then looks at its own request again - the selected route and parameters it sees must still be
	// its own (per-request state must not alias anything a later selection reuses)
	for _, router := range []rm.Router{rm.Curly, rm.JSR311} {
		router := router
		un := rs.Universe{Tokens: []string{"a", "{x}", "{y}"}, Roots: []string{"/a", "/b", "/{r}"}, MaxSub: 1, Segs: []string{"a", "b", "c"}, MaxPath: 2, RMethods: []string{"GET"}}
		var paths []string
		for _, pq := range un.Paths() {
			if !pq.Slash {
				paths = append(paths, pq.Path())
			}
		}
		var reqs []h.Req
		for _, pq := range un.Paths() {
			if pq.Slash {
				continue
			}
			for _, target := range paths {
				q := pq
				q.Method = "GET"
				q.Hdr = [][2]string{{"X-Nest", target}}
				reqs = append(reqs, q)
			}
		}
		sp := sweep{"N2", router, pairs(pathAtoms(un)), reqs}
		name := fmt.Sprintf("%s/N2", router)
		order = append(order, name)
		st := runSweep(run, sp, func(w *worker, t rm.Table, p *rm.Parsed, st *sweepStats) {
			opt := rs.BuildOpt{Router: router, Nest: true}
			b := rs.Build(t, opt)
			if b.Panic != "" {
				return
			}
			var cases, disp, nontriv int64
			for qi := range w.reqs {
				o := b.Do(w.https[qi], w.rec, false)
				disp++
				cases++
				if len(o.Invoked) < 2 {
					continue
				}
				nontriv++
				if why := judgeNested(p, w.reqs[qi], router, o); why != "" {
					qi := qi
					rc := routingCase{Sweep: "N2", Router: router.String(), Table: t, Req: w.reqs[qi], Observed: o}
					run.Violate("nested-dispatch/"+router.String(), "", fmt.Sprintf("[%s] %v ; %v : %s", router, t, w.reqs[qi], why), rc, func() bool {
						b2 := rs.Build(t, opt)
						return judgeNested(p, w.reqs[qi], router, b2.Do(w.reqs[qi].HTTP(), h.NewRec(), false)) != ""
					})
				}
			}
			atomic.AddInt64(&st.cases, cases)
			atomic.AddInt64(&st.dispatches, disp)
			atomic.AddInt64(&st.nontrivial, nontriv)
			atomic.AddInt64(&invoked, nontriv)
		})
		all[name] = st
	}
	cases, disp, nontriv := sweepCoverage(run, all, order)
	run.Cov["states"] = cases
	run.Cov["transitions"] = disp
	run.Cov["traces_validated_against_impl"] = disp
	run.Cov["evaluations"] = disp
	run.Cov["distinct_nontrivial"] = nontriv
	run.Cov["dispatches_in_which_a_route_function_ran"] = invoked
	run.Cov["distinct_outcomes_sampled"] = outcomes.Len()
	run.Cov["exhaustive"] = true
	run.Cov["rule"] = "E1 (routes declared with Method(m).Path(p); C02 declares the same tables with the per-method shortcuts): same sweeps as C02 (P1, P2, H1, H2, X2; thorough adds P3 and larger alphabets), both routers, a logging container filter installed; P1 and H1 also through ServeHTTP; N2: 2-route tables where a route function dispatches a nested request on the same container and then re-reads its own selected route and parameters. Soundness oracle evaluated on every dispatch in which a route function ran (that is the non-trivial count): method, template admits path (reference model), Consumes admits Content-Type, Produces satisfies Accept, every condition evaluated and true, selected route seen by filter and handler is the route that ran."
	run.Assume = []string{"reference model of DESIGN.md §5", "alphabets bound the claim"}
}
