package main

import (
	"encoding/json"
	"fmt"
	"strings"
	"sync"

	"verif/harness/h"
	"verif/harness/rs"
)

func init() { register("C09", checkC09, replayC09) }

// e3Part is filled by the instrumented build: the concurrent part of a mixed check.
var e3Part = map[string]func(run *h.Run){}

type c09Case struct {
	Cfg     corsCfg  `json:"cfg"`
	Seq     []h.Req  `json:"sequence"`
	Hist    []string `json:"history,omitempty"`         // E2: preflights and route mutations, rendered
	HistIdx []int    `json:"history_letters,omitempty"` // indices into c09Alphabet() (>= len: mutations)
	Got     corsResp `json:"got"`
	Want    any      `json:"expected,omitempty"`
}

func preflight(url, origin, method, headers string) h.Req {
	q := h.Req{Method: "OPTIONS", Segs: strings.Split(url, "/"), Hdr: [][2]string{{"Origin", origin}, {"Access-Control-Request-Method", method}}}
	if headers != "-" {
		q.Hdr = append(q.Hdr, [2]string{"Access-Control-Request-Headers", headers})
	}
	return q
}

// routable measures the methods routable at a URL on the filter-less twin.
func routable(t corsWorld, url string) []string {
	var out []string
	for _, m := range []string{"GET", "PUT", "POST", "DELETE", "OPTIONS", "PATCH", "HEAD"} {
		r := t.do(h.Req{Method: m, Segs: strings.Split(url, "/")})
		if r.Code != 404 && r.Code != 405 {
			out = append(out, m)
		}
	}
	return h.SortedCopy(out)
}

func inFold(list []string, x string) bool {
	for _, y := range list {
		if strings.EqualFold(x, y) {
			return true
		}
	}
	return false
}

func inExact(list []string, x string) bool {
	for _, y := range list {
		if x == y {
			return true
		}
	}
	return false
}

// judgeC09 evaluates the statement on one request (preflight or not).
func judgeC09(cfg corsCfg, q h.Req, got, twin corsResp, routableAt []string) string {
	origin := q.Header("Origin")
	if !cfg.allowed(origin) {
		return "" // C08's business
	}
	ac := got.acHeaders()
	if !isPreflight(q) {
		// any other request from an allowed origin proceeds down the chain with the headers added once
		if fmt.Sprint(got.Log) != fmt.Sprint(twin.Log) || got.Code != twin.Code || got.Body != twin.Body {
			return fmt.Sprintf("actual request does not proceed as without the filter: %s vs twin %s", got.key(), twin.key())
		}
		want := map[string][]string{"Access-Control-Allow-Origin": {origin}}
		if cfg.Cookies {
			want["Access-Control-Allow-Credentials"] = []string{"true"}
		}
		if len(cfg.Expose) > 0 {
			want["Access-Control-Expose-Headers"] = []string{strings.Join(cfg.Expose, ",")}
		}
		if cfg.MaxAge > 0 {
			want["Access-Control-Max-Age"] = []string{fmt.Sprint(cfg.MaxAge)}
		}
		for _, k := range ac {
			if _, ok := want[k]; !ok {
				return fmt.Sprintf("actual request carries unexpected %s=%q", k, got.Hdr[k])
			}
		}
		for k, v := range want {
			if fmt.Sprint(got.Hdr[k]) != fmt.Sprint(v) {
				return fmt.Sprintf("actual request from an allowed origin: %s is %q, expected %q exactly once", k, got.Hdr[k], v)
			}
		}
		return ""
	}
	// preflight: answered by the filter alone
	if len(got.Log) != 0 {
		return fmt.Sprintf("preflight ran later filters / the route function: %v", got.Log)
	}
	reqMethod := q.Header("Access-Control-Request-Method")
	allowedMethods := cfg.Methods
	if len(allowedMethods) == 0 {
		allowedMethods = routableAt
	}
	methodOK := inExact(allowedMethods, reqMethod)
	methodUndecided := !methodOK && inFold(allowedMethods, reqMethod) // case of method names: the statement is silent
	headersOK := true
	if hs := q.Header("Access-Control-Request-Headers"); hs != "" {
		for _, hname := range strings.Split(hs, ",") {
			hname = strings.Trim(hname, " ")
			if !inFold(cfg.Headers, hname) && !inExact(cfg.Headers, "*") {
				headersOK = false
			}
		}
	}
	granted := len(ac) > 0
	if methodUndecided {
		if !headersOK && granted {
			return fmt.Sprintf("preflight granted %v although a requested header is not allowed", ac)
		}
		return ""
	}
	if !(methodOK && headersOK) {
		if granted {
			return fmt.Sprintf("preflight must be refused (method allowed=%v of %v, headers allowed=%v of %v) but the response carries %v", methodOK, allowedMethods, headersOK, cfg.Headers, ac)
		}
		return ""
	}
	if acao := got.Hdr["Access-Control-Allow-Origin"]; len(acao) != 1 || acao[0] != origin {
		return fmt.Sprintf("preflight must be granted (method %s in %v, headers ok) but Access-Control-Allow-Origin is %q", reqMethod, allowedMethods, acao)
	}
	if acam := h.SetOf(strings.Join(got.Hdr["Access-Control-Allow-Methods"], ",")); !h.EqStrs(acam, h.SortedCopy(allowedMethods)) {
		return fmt.Sprintf("granted preflight: Access-Control-Allow-Methods is %v, expected %v", acam, h.SortedCopy(allowedMethods))
	}
	return ""
}

func replayC09(detail json.RawMessage) error {
	var c c09Case
	if err := json.Unmarshal(detail, &c); err != nil {
		var v e3Wrapper
		if json.Unmarshal(detail, &v) == nil && v.Scenario != "" && e3ReplayHook != nil {
			return e3ReplayHook("C09", detail)
		}
		return err
	}
	if len(c.HistIdx) > 0 {
		rs.Quiet(false)
		alphabet, muts := c09Alphabet(), c09Muts
		w, f, tw := corsBuild(c.Cfg, true), corsBuild(c.Cfg, true), corsBuild(c.Cfg, false)
		var last corsResp
		for k, i := range c.HistIdx {
			if i >= len(alphabet) {
				w.mutate(muts[i-len(alphabet)])
				f.mutate(muts[i-len(alphabet)])
				tw.mutate(muts[i-len(alphabet)])
				fmt.Println(muts[i-len(alphabet)])
				continue
			}
			last = w.do(alphabet[i])
			fmt.Printf("%v -> %s\n", alphabet[i], last.key())
			if k == len(c.HistIdx)-1 {
				want := f.do(alphabet[i]).key()
				fmt.Printf("fresh filter, same routes: %s\n", want)
				if want != last.key() {
					return fmt.Errorf("answer depends on the history")
				}
				if why := judgeC09(c.Cfg, alphabet[i], last, tw.do(alphabet[i]), routable(tw, strings.Join(alphabet[i].Segs, "/"))); why != "" {
					return fmt.Errorf("after the mutations of the history: %s", why)
				}
			}
		}
		return nil
	}
	if len(c.Seq) == 0 {
		if e3ReplayHook != nil {
			return e3ReplayHook("C09", detail)
		}
		return fmt.Errorf("not a sequential case")
	}
	rs.Quiet(false)
	w := corsBuild(c.Cfg, true)
	var last corsResp
	for _, q := range c.Seq {
		last = w.do(q)
		fmt.Printf("%v -> %s\n", q, last.key())
	}
	q := c.Seq[len(c.Seq)-1]
	fresh := corsBuild(c.Cfg, true).do(q)
	fmt.Printf("fresh container: %s\n", fresh.key())
	if last.key() != fresh.key() {
		return fmt.Errorf("answer depends on earlier preflights")
	}
	t := corsBuild(c.Cfg, false)
	if why := judgeC09(c.Cfg, q, last, t.do(q), routable(t, strings.Join(q.Segs, "/"))); why != "" {
		return fmt.Errorf("%s", why)
	}
	return nil
}

// c09URLs: u1 (GET PUT POST OPTIONS), u2 (DELETE), an unknown URL, and the URLs of two routes
// whose path variable has a regular expression with its own capturing group: GET /d/{id} and
// POST /d/{id}/c; and a literal with a non-ASCII letter (percent-encoded on the wire).
var c09URLs = []string{"u1", "u2", "nope", "d/42", "d/42/c", "d/x", "caf\u00e9", "api/reports", "reports", "api/basket", "rb1", "rb2"}

// c09Muts: the mutation letters of the E2 histories - route mutations on the dynamic root service,
// removal / re-adding of the second service.
var c09Muts = []string{"unroute-put", "route-put", "remove-api", "add-api"}

func c09Alphabet() []h.Req {
	var alphabet []h.Req
	for _, url := range []string{"u1", "u2", "nope"} {
		for _, m := range []string{"GET", "PUT", "DELETE"} {
			alphabet = append(alphabet, preflight(url, corsE1, m, "X-A"))
		}
	}
	// two URLs of the second (non-dynamic) service, on different routes of its table
	alphabet = append(alphabet, preflight("api/basket", corsE1, "DELETE", "X-A"), preflight("api/reports", corsE1, "GET", "X-A"))
	return alphabet
}

type e3Wrapper struct {
	Scenario string `json:"scenario"`
}

var e3ReplayHook func(prop string, detail json.RawMessage) error

func checkC09(run *h.Run) {
	rs.Quiet(false)
	// ---- E1: single requests ----
	var cfgs []corsCfg
	for _, m := range [][]string{nil, {"GET"}, {"GET", "PUT"}} {
		for _, hd := range [][]string{nil, {"X-A"}, {"X-A", "X-B"}, {"*"}} {
			for _, ck := range []bool{false, true} {
				for _, jsr := range []bool{false, true} {
					cfgs = append(cfgs, corsCfg{Domains: []string{corsE1}, Methods: m, Headers: hd, Cookies: ck, Expose: []string{"X-E"}, MaxAge: 5, JSR: jsr})
					if run.Tier == "thorough" {
						cfgs = append(cfgs, corsCfg{Domains: nil, Methods: m, Headers: hd, Cookies: ck, JSR: jsr})
					}
				}
			}
		}
	}
	var reqs []h.Req
	for _, url := range c09URLs {
		for _, origin := range []string{corsE1, strings.ToUpper(corsE1), "http://evil.test"} {
			for _, m := range []string{"GET", "PUT", "DELETE", "POST", "get", "PATCH"} {
				for _, hs := range []string{"-", "X-A", "x-a", "X-A, X-B", "X-A,X-C", " X-A ", "X-C", "X-A,,X-B"} {
					reqs = append(reqs, preflight(url, origin, m, hs))
				}
			}
			for _, m := range []string{"GET", "PUT", "OPTIONS", "DELETE"} {
				reqs = append(reqs, h.Req{Method: m, Segs: strings.Split(url, "/"), Hdr: [][2]string{{"Origin", origin}}})
			}
			// not a preflight: a method other than OPTIONS that (oddly) carries Access-Control-Request-Method
			for _, m := range []string{"GET", "PUT", "DELETE"} {
				for _, acrm := range []string{"PUT", "PATCH"} {
					reqs = append(reqs, h.Req{Method: m, Segs: strings.Split(url, "/"), Hdr: [][2]string{{"Origin", origin}, {"Access-Control-Request-Method", acrm}}})
				}
			}
		}
	}
	type res struct{ cases, nontriv int64 }
	results := make([]res, len(cfgs))
	h.Parallel(len(cfgs), func(_, i int) {
		cfg := cfgs[i]
		w, t := corsBuild(cfg, true), corsBuild(cfg, false)
		rt := map[string][]string{}
		for _, u := range c09URLs {
			rt[u] = routable(t, u)
		}
		for _, q := range reqs {
			// a fresh filter per request: history effects are the E2 part's business
			w = corsBuild(cfg, true)
			got, twin := w.do(q), t.do(q)
			results[i].cases++
			if cfg.allowed(q.Header("Origin")) {
				results[i].nontriv++
			}
			if why := judgeC09(cfg, q, got, twin, rt[strings.Join(q.Segs, "/")]); why != "" {
				q := q
				run.Violate("preflight", "", fmt.Sprintf("%+v ; %v : %s", cfg, q, why), c09Case{Cfg: cfg, Seq: []h.Req{q}, Got: got}, func() bool {
					t2 := corsBuild(cfg, false)
					return judgeC09(cfg, q, corsBuild(cfg, true).do(q), t2.do(q), routable(t2, strings.Join(q.Segs, "/"))) != ""
				})
			} else if results[i].cases%2111 == 0 {
				run.Sample(map[string]any{"cfg": cfg, "request": q.String(), "answer": got.key()})
			}
		}
	})
	var cases, nontriv int64
	for _, r := range results {
		cases += r.cases
		nontriv += r.nontriv
	}
	// ---- E2: every sequence of preflights on one filter: each answer equals a fresh filter's ----
	depth := 3
	if run.Tier == "thorough" {
		depth = 4
	}
	alphabet := c09Alphabet()
	seqCfgs := []corsCfg{{Domains: []string{corsE1}, Headers: []string{"X-A"}}, {Domains: []string{corsE1}, Methods: []string{"GET", "PUT"}, Headers: []string{"X-A"}}, {Domains: []string{corsE1}, Headers: []string{"X-A"}, JSR: true}}
	var seqStates, seqTrans int64
	for _, cfg := range seqCfgs {
		// two extra letters: route mutations on the dynamic service (computed methods must follow them)
		muts := c09Muts
		nPre := len(alphabet)
		freshCache := map[string]string{}
		var fmu sync.Mutex
		// freshAnswer: a fresh container on which only the mutations of the history were applied
		freshAnswer := func(seq []int) string {
			var ms []string
			for _, i := range seq[:len(seq)-1] {
				if i >= nPre {
					ms = append(ms, muts[i-nPre])
				}
			}
			k := fmt.Sprint(ms, seq[len(seq)-1])
			fmu.Lock()
			v, ok := freshCache[k]
			fmu.Unlock()
			if ok {
				return v
			}
			w := corsBuild(cfg, true)
			for _, m := range ms {
				w.mutate(m)
			}
			v = w.do(alphabet[seq[len(seq)-1]]).key()
			fmu.Lock()
			freshCache[k] = v
			fmu.Unlock()
			return v
		}
		// twinAfter: what a filter-less twin that went through the same mutations answers and routes
		// (a fresh filtered container that went through the same mutations shares whatever the
		// mutations themselves leave behind, so the statement's rule is evaluated as well)
		type twinView struct {
			resp     corsResp
			routable []string
		}
		twinCache := map[string]twinView{}
		twinAfter := func(seq []int) twinView {
			var ms []string
			for _, i := range seq[:len(seq)-1] {
				if i >= nPre {
					ms = append(ms, muts[i-nPre])
				}
			}
			q := alphabet[seq[len(seq)-1]]
			k := fmt.Sprint(ms, seq[len(seq)-1])
			fmu.Lock()
			v, ok := twinCache[k]
			fmu.Unlock()
			if ok {
				return v
			}
			tw := corsBuild(cfg, false)
			for _, m := range ms {
				tw.mutate(m)
			}
			v = twinView{tw.do(q), routable(tw, strings.Join(q.Segs, "/"))}
			fmu.Lock()
			twinCache[k] = v
			fmu.Unlock()
			return v
		}
		// enumerate all sequences of length 1..depth (a state is the history that reaches it)
		total := 0
		n := len(alphabet) + len(muts)
		for l := 1; l <= depth; l++ {
			count := 1
			for i := 0; i < l; i++ {
				count *= n
			}
			total += count
		}
		seqs := make([][]int, 0, total)
		var rec func(cur []int)
		rec = func(cur []int) {
			if len(cur) > 0 && cur[len(cur)-1] < nPre {
				seqs = append(seqs, append([]int{}, cur...)) // judged histories end in a preflight
			}
			if len(cur) == depth {
				return
			}
			for i := 0; i < n; i++ {
				rec(append(cur, i))
			}
		}
		rec(nil)
		cfg := cfg
		h.Parallel(len(seqs), func(_, si int) {
			seq := seqs[si]
			w := corsBuild(cfg, true)
			var last corsResp
			var names []string
			for _, i := range seq {
				if i >= nPre {
					w.mutate(muts[i-nPre])
					names = append(names, muts[i-nPre])
				} else {
					last = w.do(alphabet[i])
					names = append(names, alphabet[i].String())
				}
			}
			if k, want := last.key(), freshAnswer(seq); k != want {
				run.Violate("preflight-history", "", fmt.Sprintf("%+v ; after the history %q the last preflight is answered %s ; a fresh filter on a container with the same routes answers %s", cfg, names[:len(names)-1], k, want),
					c09Case{Cfg: cfg, Hist: names, HistIdx: seq, Got: last, Want: want}, nil)
			} else if tv := twinAfter(seq); true {
				q := alphabet[seq[len(seq)-1]]
				if why := judgeC09(cfg, q, last, tv.resp, tv.routable); why != "" {
					run.Violate("preflight-after-mutations", "", fmt.Sprintf("%+v ; after the history %q : %s", cfg, names[:len(names)-1], why),
						c09Case{Cfg: cfg, Hist: names, HistIdx: seq, Got: last, Want: tv.routable}, nil)
				}
			}
		})
		seqStates += int64(len(seqs))
		for _, s := range seqs {
			seqTrans += int64(len(s))
		}
	}
	run.Cov["sequential_cases"] = cases
	run.Cov["history_states"] = seqStates
	run.Cov["history_depth"] = depth
	run.Cov["states"] = cases + seqStates
	run.Cov["transitions"] = cases*2 + seqTrans
	run.Cov["traces_validated_against_impl"] = cases*2 + seqTrans
	run.Cov["evaluations"] = cases*2 + seqTrans
	run.Cov["distinct_nontrivial"] = nontriv + seqStates
	run.Cov["exhaustive"] = true
	run.Cov["rule"] = fmt.Sprintf("E1: configurations (allowed methods {computed,[GET],[GET,PUT]} x allowed headers {none,[X-A],[X-A,X-B],[*]} x cookies x router) x requests (6 URLs incl. routes whose variable has a regular expression with a capturing group x allowed/case-variant/disallowed origin x 6 requested methods x 8 requested-header lists, plus actual requests incl. non-OPTIONS requests carrying Access-Control-Request-Method) against the statement's grant rule, routable methods measured on a filter-less twin; (two routes of the world are declared with one reused RouteBuilder) E2: every sequence of <= %d steps over 11 preflights (3 URLs x 3 methods, 2 URLs of a second non-dynamic service) and 4 mutations (RemoveRoute / Route of PUT on a dynamic service, Remove / Add of the second service) on one filter, each preflight answer compared with a fresh filter's on a container that went through the same mutations and judged by the statement's rule against a filter-less twin that went through them too; E3 (instrumented build): two concurrent preflights through one filter, all schedules within the preemption bound with happens-before race detection. Non-trivial: request from an allowed origin / every history.", depth)
	run.Assume = []string{"method-name case (get vs GET) is not decided by the statement: either answer accepted", "statement's grant rule transcribed in judgeC09"}
	if f := e3Part["C09"]; f != nil {
		f(run)
	} else {
		run.Cov["concurrent_part"] = "not run (plain build)"
	}
}
