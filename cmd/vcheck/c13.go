//go:build verif

package main

import (
	"fmt"
	"strings"

	restful "github.com/emicklei/go-restful/v3"
	"github.com/emicklei/go-restful/v3/zverif/vsched"

	"verif/harness/h"
)

func init() {
	e3Scenarios["C13"] = c13Scenarios
	register("C13", checkC13, e3Replay("C13"))
}

func c13Scenario(provider, kinds string, serve bool, bound int) e3Scenario {
	name := fmt.Sprintf("%s/%s/serve=%v", provider, kinds, serve)
	return e3Scenario{Name: name, Bound: bound, New: func() *e3Inst {
		// the provider is constructed under the scheduler too: a constructor that blocks (it fills
		// its caches through channel sends) is a verdict, not a hang
		var prov restful.CompressorProvider
		cx := vsched.RunOnce([]vsched.Body{{Name: "construct-provider", Run: func() { prov = newProvider(provider) }}}, nil, false, 0)
		if cx.Deadlock || prov == nil {
			stuck := strings.Join(cx.Stuck, "; ")
			return &e3Inst{Check: func(*vsched.Execution) []e3Issue {
				return []e3Issue{{"blocked", "constructing the provider " + provider + " blocks: " + stuck}}
			}, Outcome: func() string { return "provider construction blocks" }}
		}
		led := newLedger(prov)
		restful.SetCompressorProvider(led)
		closeErrs := map[string]error{}
		c := c13Container(closeErrs)
		n := len(kinds)
		recs := make([]*h.Rec, n)
		wants := make([]string, n)
		inst := &e3Inst{}
		for i := 0; i < n; i++ {
			i := i
			id := fmt.Sprint(i + 1)
			q, want, _ := c13Request(kinds[i], id)
			wants[i] = want
			recs[i] = h.NewRec()
			hr := q.HTTP()
			if kinds[i] == 'X' {
				body := []byte("this is not a gzip stream at all")
				hr.Body = &chunkReader{data: body, chunk: 16, label: "body.read"}
				hr.ContentLength = int64(len(body))
				hr.Header.Set("Content-Length", fmt.Sprint(len(body)))
			}
			if kinds[i] == 'R' {
				body := gzipBytes(`{"A":"` + want + `"}`)
				hr.Body = &chunkReader{data: body, chunk: (len(body) + 2) / 3, label: "body.read"}
				hr.ContentLength = int64(len(body))
				hr.Header.Set("Content-Length", fmt.Sprint(len(body)))
			}
			w := &ptRec{Rec: recs[i], fail: kinds[i] == 'F'}
			inst.Bodies = append(inst.Bodies, vsched.Body{Name: string(kinds[i]) + id, Run: func() {
				if serve {
					c.ServeHTTP(w, hr)
				} else {
					c.Dispatch(w, hr)
				}
			}})
		}
		inst.Check = func(x *vsched.Execution) []e3Issue {
			var out []e3Issue
			for _, b := range x.Blocked {
				out = append(out, e3Issue{"blocked", fmt.Sprintf("thread %d is blocked inside a provider operation: %s", b.Thread, b.Op)})
			}
			for _, m := range led.report(!x.Deadlock) {
				out = append(out, e3Issue{"oracle:ledger", m})
			}
			if x.Deadlock {
				return out
			}
			for i := 0; i < n; i++ {
				if kinds[i] == 'F' || kinds[i] == 'H' {
					continue // nothing (no labelled body) reaches the client; only the ledger verdict counts
				}
				got, enc, err := decodeBody(recs[i])
				if err != nil {
					out = append(out, e3Issue{"oracle:decode", fmt.Sprintf("response %d (%c, Content-Encoding %q) does not decode: %v", i+1, kinds[i], enc, err)})
					continue
				}
				if kinds[i] == 'X' {
					if !strings.HasPrefix(got, wants[i]) || recs[i].Code != 400 {
						out = append(out, e3Issue{"oracle:broken-body", fmt.Sprintf("response %d: a corrupt gzip body gave status %d body %q, expected a read error", i+1, recs[i].Code, got)})
					}
					continue
				}
				if got != wants[i] {
					out = append(out, e3Issue{"oracle:payload", fmt.Sprintf("response %d (%c) decodes to %q, expected %q", i+1, kinds[i], got, wants[i])})
				}
				if kinds[i] == 'C' {
					if closeErrs[fmt.Sprint(i+1)] == nil {
						out = append(out, e3Issue{"oracle:double-close", "second Close of a response writer returned nil"})
					}
				}
			}
			return out
		}
		inst.Outcome = func() string {
			var sb strings.Builder
			for i := 0; i < n; i++ {
				fmt.Fprintf(&sb, "%d:%d/%s/%d ", i+1, recs[i].Code, recs[i].Result().Get("Content-Encoding"), recs[i].Buf.Len())
			}
			fmt.Fprintf(&sb, "acq=%d objs=%d", led.acquired, len(led.seen))
			return sb.String()
		}
		return inst
	}}
}

func c13Scenarios(tier string) []e3Scenario {
	var out []e3Scenario
	providers := []string{"bounded0", "bounded1", "bounded2", "syncpool"}
	pairs := []string{"NN", "DD", "NE", "NP", "NC", "RR", "NR", "PP", "CC", "NF", "FF", "XR", "XX", "NH", "HH"}
	bound := 2
	if tier == "thorough" {
		pairs = append(pairs, "ND", "EE", "DC", "RP", "NNN", "NNP", "RRR", "NDC", "NER", "DDD")
	}
	// bounded caches whose writer and reader capacities differ
	asym := map[string]bool{"bounded21": true, "bounded10": true, "bounded12": true}
	providers = append(providers, "bounded21", "bounded10", "bounded12")
	for _, p := range providers {
		for _, k := range pairs {
			if asym[p] && tier != "thorough" && k != "NN" && k != "RR" && k != "NR" && k != "XR" {
				continue
			}
			for _, serve := range []bool{true, false} {
				b := bound
				if tier == "thorough" {
					b = 3
					if len(k) == 3 && p == "syncpool" {
						b = 2
					}
				}
				out = append(out, c13Scenario(p, k, serve, b))
			}
		}
	}
	return out
}

func checkC13(run *h.Run) {
	e3RunAll(run, nil)
	run.Cov["distinct_nontrivial"] = run.Cov["schedules"]
	run.Cov["rule"] = "E3: stateless exploration of all thread schedules (scheduling points = RWMutex Lock/RLock, Pool Get/Put, every channel operation, harness points inside handlers, body reads and every write to the connection; Pool.Get hand-out is an owned choice) with iterative preemption bounding (quick: 2 concurrent requests, bound 2; thorough: up to 3 requests, bound 3) for every provider in {bounded(0), bounded(1), bounded(2), sync.Pool, and bounded caches with unequal writer/reader capacities (2,1), (1,0), (1,2) (quick: on the tuples NN, RR, NR, XR)} x request-kind tuple over {N gzip response, D deflate response, E routing error through the encoder, F underlying writer fails every write, X corrupt gzip request body, P recovered panic after partial output, C handler closes the writer twice, H handler takes the Content-Encoding header off the response and answers 304, R gzip request body read in chunks} x entry point. Every complete execution is non-trivial: ledger verdict, blocked-in-provider events, deadlock, decoded bodies. Each execution runs the real (instrumented) package."
	run.Assume = []string{"sequentially consistent interleavings at synchronisation granularity", "shim RWMutex/Pool faithful to sync (writer preference; pool may drop or return any pooled object)", "compress/* trusted"}
}
