package main

import (
	"encoding/json"
	"fmt"
	"io"
	"net/http"
	"sort"
	"strings"

	restful "github.com/emicklei/go-restful/v3"

	"verif/harness/h"
	"verif/harness/rs"
)

func init() { register("C11", checkC11, replayC11) }

// c11Op is one operation of a registration history.
type c11Op struct {
	Kind string `json:"kind"` // add, remove, route, unroute, handle
	I    int    `json:"i"`    // service index / handler index
}

func (o c11Op) String() string { return fmt.Sprintf("%s(%d)", o.Kind, o.I) }

type c11Universe struct {
	Roots    []string
	Dynamic  []int // services whose extra route /q can be added and removed
	Patterns []string
	Depth    int
	Name     string
	// NoPath: services declared without any Path() call (their root path becomes "/" when the
	// container adds them); DynEntry: sub-path of the dynamic route ("/q" unless set; may be "")
	NoPath   []int
	DynEntry *string
}

func (u c11Universe) dyn() string {
	if u.DynEntry != nil {
		return *u.DynEntry
	}
	return "/q"
}

func (u c11Universe) noPath(i int) bool {
	for _, j := range u.NoPath {
		if i == j {
			return true
		}
	}
	return false
}

// c11Universes: the main universe and a small second one whose first service never had Path()
// called and whose dynamic route sits on the empty sub-path (a route built before the service is
// added and one built afterwards must be the same route).
func c11Universes(tier string) []c11Universe {
	empty := ""
	d := 4
	if tier == "thorough" {
		d = 5 // (depth 6 of this universe alone ran for more than half an hour on 16 cores)
	}
	return []c11Universe{c11U(tier), {Name: "nopath", Roots: []string{"", "/a"}, NoPath: []int{0}, Dynamic: []int{0}, DynEntry: &empty, Patterns: []string{"/static/", "/health"}, Depth: d}}
}

func c11U(tier string) c11Universe {
	if tier == "thorough" {
		return c11Universe{Roots: []string{"/", "/a", "/a/", "/a/{x}/b", "/a/{x}/c", "/ab", "/a/b", "/{v}", "/b/{y}"}, Dynamic: []int{0, 1, 3}, Patterns: []string{"/static/", "/health"}, Depth: 5}
	}
	return c11Universe{Roots: []string{"/", "/a", "/a/", "/a/{x}/b", "/a/{x}/c", "/{v}"}, Dynamic: []int{1, 3}, Patterns: []string{"/static/", "/health"}, Depth: 4}
}

// c11State is the abstract content of a container after a history.
type c11State struct {
	Order               []int            // registered services in Add order
	Routes              map[int][]string // per service (registered or not): its routes in order
	Handled             []int            // handler patterns registered, in order
	HandledBeforeRemove map[int]bool     // F6 signature: a Remove happened after this Handle
	// Rejected: patterns for which a second Handle was attempted (net/http panics on a duplicate
	// pattern; the caller recovers and goes on). Nothing was registered by it: not part of the
	// content a fresh container is built from, but part of the history.
	Rejected []int
	// Undone: services that were removed at least once / whose dynamic route was removed at least
	// once. Not part of the content either, but a second cycle (remove, then add again) is a
	// different history from a first one, and the search must not merge them.
	Undone map[string]bool
}

func (s c11State) key() string {
	var sb strings.Builder
	fmt.Fprintf(&sb, "%v|", s.Order)
	ids := make([]int, 0, len(s.Routes))
	for i := range s.Routes {
		ids = append(ids, i)
	}
	sort.Ints(ids)
	for _, i := range ids {
		fmt.Fprintf(&sb, "%d:%v;", i, s.Routes[i])
	}
	hs := append([]int{}, s.Handled...)
	sort.Ints(hs)
	fmt.Fprintf(&sb, "|%v|", hs)
	var rm []int
	for i, b := range s.HandledBeforeRemove {
		if b {
			rm = append(rm, i)
		}
	}
	sort.Ints(rm)
	fmt.Fprintf(&sb, "%v", rm)
	if len(s.Rejected) > 0 {
		rj := append([]int{}, s.Rejected...)
		sort.Ints(rj)
		fmt.Fprintf(&sb, "|rejected%v", rj)
	}
	if len(s.Undone) > 0 {
		var ud []string
		for k := range s.Undone {
			ud = append(ud, k)
		}
		sort.Strings(ud)
		fmt.Fprintf(&sb, "|undone%v", ud)
	}
	return sb.String()
}

// c11World is a real container being driven through a history.
type c11World struct {
	u  c11Universe
	c  *restful.Container
	ws []*restful.WebService
}

func c11Handler(id string) http.Handler {
	return http.HandlerFunc(func(w http.ResponseWriter, r *http.Request) {
		w.Header().Set("X-Route", "handler:"+id)
		io.WriteString(w, "handler:"+id)
	})
}

func c11RouteFn(id string) restful.RouteFunction {
	return func(req *restful.Request, resp *restful.Response) {
		resp.Header().Set("X-Route", id)
		resp.Header().Set("X-Params", fmt.Sprint(sortedParams(req.PathParameters())))
		io.WriteString(resp, id)
	}
}

// c11RouteBuilder: an entry is a sub-path, optionally followed by #xml / #json for a route that
// is split by Produces (several routes with the same method and path).
func c11RouteBuilder(ws *restful.WebService, i int, entry string) *restful.RouteBuilder {
	path, prod := entry, ""
	if k := strings.Index(entry, "#"); k >= 0 {
		path, prod = entry[:k], entry[k+1:]
	}
	rb := ws.GET(path).To(c11RouteFn(fmt.Sprintf("ws%d%s", i, entry)))
	if prod != "" {
		rb.Produces("application/" + prod)
	}
	return rb
}

func sortedParams(m map[string]string) []string {
	var out []string
	for k, v := range m {
		out = append(out, k+"="+v)
	}
	sort.Strings(out)
	return out
}

func newC11World(u c11Universe, routes map[int][]string) *c11World {
	w := &c11World{u: u, c: restful.NewContainer()}
	w.c.Filter(w.c.OPTIONSFilter) // OPTIONS probes: the computed method lists must follow every change
	for i, root := range u.Roots {
		ws := new(restful.WebService)
		if !u.noPath(i) {
			ws.Path(root)
		}
		ws.SetDynamicRoutes(true)
		rts := []string{"/p"}
		if routes != nil {
			rts = routes[i]
		}
		for _, r := range rts {
			ws.Route(c11RouteBuilder(ws, i, r))
		}
		w.ws = append(w.ws, ws)
	}
	return w
}

// apply performs one operation on the real container; a panic is returned as a string.
func (w *c11World) apply(o c11Op) (panicked string) {
	defer func() {
		if r := recover(); r != nil {
			panicked = fmt.Sprint(r)
		}
	}()
	switch o.Kind {
	case "add":
		w.c.Add(w.ws[o.I])
	case "remove":
		w.c.Remove(w.ws[o.I])
	case "route":
		w.ws[o.I].Route(c11RouteBuilder(w.ws[o.I], o.I, w.u.dyn()))
	case "route-xml":
		w.ws[o.I].Route(c11RouteBuilder(w.ws[o.I], o.I, w.u.dyn()+"#xml"))
	case "route-json":
		w.ws[o.I].Route(c11RouteBuilder(w.ws[o.I], o.I, w.u.dyn()+"#json"))
	case "unroute":
		root := strings.TrimRight(w.u.Roots[o.I], "/")
		w.ws[o.I].RemoveRoute(root+"/"+strings.TrimLeft(w.u.dyn(), "/"), "GET")
	case "handle", "handle-again":
		w.c.Handle(w.u.Patterns[o.I], c11Handler(w.u.Patterns[o.I]))
	}
	return ""
}

// next computes the abstract successor; ok=false if the operation is outside the alphabet in
// this state (the property's preconditions).
func (s c11State) next(u c11Universe, o c11Op) (c11State, bool) {
	n := c11State{Order: append([]int{}, s.Order...), Routes: map[int][]string{}, Handled: append([]int{}, s.Handled...), HandledBeforeRemove: map[int]bool{}, Rejected: append([]int{}, s.Rejected...), Undone: map[string]bool{}}
	for k := range s.Undone {
		n.Undone[k] = true
	}
	for i, r := range s.Routes {
		n.Routes[i] = append([]string{}, r...)
	}
	for i, b := range s.HandledBeforeRemove {
		n.HandledBeforeRemove[i] = b
	}
	registered := func(i int) bool {
		for _, j := range s.Order {
			if j == i {
				return true
			}
		}
		return false
	}
	has := func(l []string, x string) bool {
		for _, y := range l {
			if y == x {
				return true
			}
		}
		return false
	}
	switch o.Kind {
	case "add":
		if registered(o.I) {
			return n, false // duplicate root paths exit the process: outside the quantifier
		}
		n.Order = append(n.Order, o.I)
	case "remove":
		// removing a service that is not registered must be a no-op; it still rebuilds the mux
		var keep []int
		for _, j := range n.Order {
			if j != o.I {
				keep = append(keep, j)
			}
		}
		if len(keep) != len(n.Order) {
			n.Undone[fmt.Sprint("removed", o.I)] = true
		}
		n.Order = keep
		for _, hnd := range n.Handled {
			n.HandledBeforeRemove[hnd] = true
		}
	case "route", "route-xml", "route-json":
		entry := u.dyn() + map[string]string{"route": "", "route-xml": "#xml", "route-json": "#json"}[o.Kind]
		dyn := false
		for _, d := range u.Dynamic {
			if d == o.I {
				dyn = true
			}
		}
		if !dyn || has(n.Routes[o.I], entry) {
			return n, false
		}
		n.Routes[o.I] = append(n.Routes[o.I], entry)
	case "unroute":
		// RemoveRoute(path, method) removes every route with that method and path
		var keep []string
		found := false
		for _, r := range n.Routes[o.I] {
			if r == u.dyn() || strings.HasPrefix(r, u.dyn()+"#") {
				found = true
				continue
			}
			keep = append(keep, r)
		}
		if !found {
			return n, false
		}
		n.Undone[fmt.Sprint("unrouted", o.I)] = true
		n.Routes[o.I] = keep
	case "handle":
		for _, j := range n.Handled {
			if j == o.I {
				return n, false // registering a pattern twice panics by contract
			}
		}
		n.Handled = append(n.Handled, o.I)
	case "handle-again":
		// a second Handle for a registered pattern: rejected with a panic, registers nothing
		handled := false
		for _, j := range n.Handled {
			handled = handled || j == o.I
		}
		for _, j := range n.Rejected {
			if j == o.I {
				return n, false
			}
		}
		if !handled {
			return n, false
		}
		n.Rejected = append(n.Rejected, o.I)
	}
	return n, true
}

func c11Initial(u c11Universe) c11State {
	s := c11State{Routes: map[int][]string{}, HandledBeforeRemove: map[int]bool{}}
	for i := range u.Roots {
		s.Routes[i] = []string{"/p"}
	}
	return s
}

func c11Ops(u c11Universe) []c11Op {
	var ops []c11Op
	for i := range u.Roots {
		ops = append(ops, c11Op{"add", i})
	}
	for i := range u.Roots {
		ops = append(ops, c11Op{"remove", i})
	}
	for _, i := range u.Dynamic {
		ops = append(ops, c11Op{"route", i}, c11Op{"route-xml", i}, c11Op{"route-json", i}, c11Op{"unroute", i})
	}
	for i := range u.Patterns {
		ops = append(ops, c11Op{"handle", i}, c11Op{"handle-again", i})
	}
	return ops
}

// fresh builds a new container directly from the abstract content.
func c11Fresh(u c11Universe, s c11State) (*c11World, string) {
	w := newC11World(u, s.Routes)
	for _, i := range s.Order {
		if p := w.apply(c11Op{"add", i}); p != "" {
			return w, p
		}
	}
	for _, i := range s.Handled {
		w.apply(c11Op{"handle", i})
	}
	return w, ""
}

type c11Probe struct {
	Req     h.Req
	Serve   bool
	Handler int // index of the Handle pattern this probe targets, -1 otherwise
}

func c11Probes(u c11Universe) []c11Probe {
	var out []c11Probe
	add := func(q h.Req, hnd int) {
		for _, serve := range []bool{true, false} {
			out = append(out, c11Probe{q, serve, hnd})
		}
	}
	for _, root := range u.Roots {
		var segs []string
		for _, t := range strings.Split(strings.Trim(root, "/"), "/") {
			if t == "" {
				continue
			}
			if strings.HasPrefix(t, "{") {
				t = "1"
			}
			segs = append(segs, t)
		}
		for _, last := range []string{"p", "q"} {
			for _, m := range []string{"GET", "POST"} {
				add(h.Req{Method: m, Segs: append(append([]string{}, segs...), last)}, -1)
			}
		}
		for _, last := range []string{"p", "q"} {
			add(h.Req{Method: "OPTIONS", Segs: append(append([]string{}, segs...), last)}, -1)
		}
		for _, acc := range []string{"application/xml", "application/json"} {
			add(h.Req{Method: "GET", Segs: append(append([]string{}, segs...), "q"), Hdr: [][2]string{{"Accept", acc}}}, -1)
		}
		if len(segs) > 0 {
			add(h.Req{Method: "GET", Segs: segs}, -1)
		}
	}
	add(h.Req{Method: "GET", Segs: []string{"static", "f"}}, 0)
	add(h.Req{Method: "GET", Segs: []string{"health"}}, 1)
	add(h.Req{Method: "GET", Segs: []string{"zzz"}}, -1)
	add(h.Req{Method: "GET"}, -1)
	add(h.Req{Method: "POST"}, -1)
	add(h.Req{Method: "OPTIONS"}, -1)
	for _, acc := range []string{"application/xml", "application/json"} {
		add(h.Req{Method: "GET", Hdr: [][2]string{{"Accept", acc}}}, -1)
	}
	return out
}

func c11Answer(w *c11World, p c11Probe) string {
	rec := h.NewRec()
	hr := p.Req.HTTP()
	func() {
		defer func() {
			if r := recover(); r != nil {
				rec.Code = -1
				rec.HeaderMap.Set("X-Route", "PANIC "+fmt.Sprint(r))
			}
		}()
		if p.Serve {
			w.c.ServeHTTP(rec, hr)
		} else {
			w.c.Dispatch(rec, hr)
		}
	}()
	hd := rec.Result()
	return fmt.Sprintf("%d route=%s params=%s allow=%v loc=%s", rec.Code, hd.Get("X-Route"), hd.Get("X-Params"), h.SetOf(strings.Join(hd["Allow"], ",")), hd.Get("Location"))
}

type c11Case struct {
	History []c11Op   `json:"history"`
	Tier    string    `json:"tier"`
	U       string    `json:"universe,omitempty"`
	Probe   *c11Probe `json:"probe,omitempty"`
	Got     string    `json:"history_built"`
	Want    string    `json:"fresh_built"`
}

// c11Eval replays a history on a fresh real container and compares it with the container built
// directly from the abstract content over the whole probe set.
func c11Eval(u c11Universe, probes []c11Probe, hist []c11Op, s c11State) (issues []struct {
	class, finding, msg string
	c                   c11Case
}, sig string) {
	// once with the probe set served between the operations, once with the operations back to back
	issues, sig = c11EvalMode(u, probes, hist, s, 0)
	for mode := 1; mode <= 2 && len(issues) == 0 && len(hist) > mode; mode++ {
		if is2, _ := c11EvalMode(u, probes, hist, s, mode); len(is2) > 0 {
			return is2, sig
		}
	}
	return issues, sig
}

// mode 0: the probe set is served between all operations; 1: never; 2: everywhere except between
// the last two operations (which follow each other with no request in between).
func c11EvalMode(u c11Universe, probes []c11Probe, hist []c11Op, s c11State, mode int) (issues []struct {
	class, finding, msg string
	c                   c11Case
}, sig string) {
	w := newC11World(u, nil)
	for i, o := range hist {
		if i > 0 && (mode == 0 || mode == 2 && i < len(hist)-1) {
			// serve the whole probe set between operations too: whatever the container memoises while
			// serving must not survive the next change
			for pi := range probes {
				c11Answer(w, probes[pi])
			}
		}
		if p := w.apply(o); p != "" && o.Kind != "handle-again" {
			issues = append(issues, struct {
				class, finding, msg string
				c                   c11Case
			}{"operation-panics", "", fmt.Sprintf("history %v: operation %v panics: %s", hist[:i], o, p), c11Case{History: hist[:i+1], Got: "panic: " + p}})
			return issues, "panic"
		}
	}
	f, p := c11Fresh(u, s)
	if p != "" {
		issues = append(issues, struct {
			class, finding, msg string
			c                   c11Case
		}{"fresh-build-panics", "", fmt.Sprintf("building a fresh container with services %v panics: %s", s.Order, p), c11Case{History: hist, Got: "panic: " + p}})
		return issues, "panic"
	}
	var sb strings.Builder
	for pi := range probes {
		pr := probes[pi]
		got, want := c11Answer(w, pr), c11Answer(f, pr)
		sb.WriteString(got)
		sb.WriteString("\n")
		if got != want {
			finding := ""
			// F6: a plain handler registered before a Remove is forgotten by the rebuilt mux
			if pr.Handler >= 0 && pr.Serve && s.HandledBeforeRemove[pr.Handler] && strings.HasPrefix(want, "200 route=handler:") && !strings.Contains(got, "handler:") {
				finding = "F6"
			}
			entry := "Dispatch"
			if pr.Serve {
				entry = "ServeHTTP"
			}
			issues = append(issues, struct {
				class, finding, msg string
				c                   c11Case
			}{"differs-from-fresh", finding, fmt.Sprintf("after %v: %s %s %q -> %s ; a fresh container with the same content -> %s", hist, entry, pr.Req.Method, pr.Req.Path(), got, want),
				c11Case{History: hist, Probe: &probes[pi], Got: got, Want: want}})
		}
	}
	return issues, sb.String()
}

func replayC11(detail json.RawMessage) error {
	var c c11Case
	if err := json.Unmarshal(detail, &c); err != nil {
		return err
	}
	rs.Quiet(false)
	tier := c.Tier
	if tier == "" {
		tier = "quick"
	}
	u := c11U(tier)
	for _, cand := range c11Universes(tier) {
		if cand.Name == c.U {
			u = cand
		}
	}
	s := c11Initial(u)
	for _, o := range c.History {
		n, ok := s.next(u, o)
		if !ok {
			return fmt.Errorf("history is outside the alphabet at %v", o)
		}
		s = n
	}
	issues, _ := c11Eval(u, c11Probes(u), c.History, s)
	for _, is := range issues {
		fmt.Println(is.msg)
	}
	if len(issues) > 0 {
		return fmt.Errorf("%s", issues[0].msg)
	}
	return nil
}

func checkC11(run *h.Run) {
	rs.Quiet(false)
	var tStates, tTrans, tEvals, tDepth, tSigs int
	var main c11Universe
	var mainProbes int
	for ui, u := range c11Universes(run.Tier) {
		st, tr, md, np, ns := c11Search(run, u)
		tStates, tTrans, tEvals, tSigs = tStates+st, tTrans+tr, tEvals+tr*np*2, tSigs+ns
		if md > tDepth {
			tDepth = md
		}
		if ui == 0 {
			main, mainProbes = u, np
		}
	}
	u, probes := main, make([]struct{}, mainProbes)
	run.Cov["states"] = tStates
	run.Cov["transitions"] = tTrans
	run.Cov["traces_validated_against_impl"] = tTrans
	run.Cov["evaluations"] = tEvals
	run.Cov["distinct_nontrivial"] = tStates
	run.Cov["max_depth"] = tDepth
	run.Cov["probes_per_state"] = len(probes)
	run.Cov["distinct_probe_signatures"] = tSigs
	run.Cov["exhaustive"] = true
	run.Cov["roots"] = u.Roots
	run.Cov["rule"] = fmt.Sprintf("E2: breadth-first search over operation histories up to depth %d; alphabet Add/Remove of %d services whose root paths collide in every way the mux registration can, Route/RemoveRoute of a dynamic route on %d of them, Handle of %d plain patterns, and one further Handle of an already registered pattern (rejected by net/http with a panic which the caller recovers: it registers nothing) (Add only of unregistered roots - the property's precondition). Every history is replayed three times - with the probe set served between all operations, between none, and between all but the last two. A successor is computed by replaying the history on a fresh real container; the probe set is also served between the operations of a history (so that nothing memoised while serving survives a change); in every reached state all %d probes (each service's routes incl. removed ones, root URLs, handler patterns, unknown URL; GET/POST; ServeHTTP and Dispatch) must be answered exactly as by a container built directly from the state's abstract content. States are merged on abstract content (plus the observed probe signature when a state deviates from its fresh twin). Every state is non-trivial. A second, small universe is searched the same way: a service declared without any Path() call next to /a, the dynamic route on the empty sub-path (declared before the service is added in the fresh container, afterwards in most histories).", u.Depth, len(u.Roots), len(u.Dynamic), len(u.Patterns), len(probes))
	run.Assume = []string{"merged states have the same futures w.r.t. the probe set and alphabet because the oracle has just shown them observationally equal to the fresh-built container"}
}

// c11Search: the breadth-first search over one universe; returns states, transitions, max depth,
// number of probes, distinct probe signatures.
func c11Search(run *h.Run, u c11Universe) (int, int, int, int, int) {
	probes := c11Probes(u)
	ops := c11Ops(u)
	type node struct {
		hist []c11Op
		s    c11State
	}
	init := c11Initial(u)
	seen := map[string]bool{init.key() + "#": true}
	frontier := []node{{nil, init}}
	states, transitions, maxDepth := 1, 0, 0
	sigs := h.NewDistinctSet(1 << 20)
	for depth := 0; depth < u.Depth && len(frontier) > 0; depth++ {
		type succ struct {
			n      node
			key    string
			issues []struct {
				class, finding, msg string
				c                   c11Case
			}
		}
		// expand the frontier in parallel: each successor replays its history on a fresh container
		var jobs []node
		for _, nd := range frontier {
			for _, o := range ops {
				ns, ok := nd.s.next(u, o)
				if !ok {
					continue
				}
				jobs = append(jobs, node{append(append([]c11Op{}, nd.hist...), o), ns})
			}
		}
		results := make([]succ, len(jobs))
		h.Parallel(len(jobs), func(_, i int) {
			issues, sig := c11Eval(u, probes, jobs[i].hist, jobs[i].s)
			// the hidden signature is part of the key only when the state deviates from its fresh twin
			k := jobs[i].s.key() + "#"
			if len(issues) > 0 {
				k += sig
			}
			results[i] = succ{jobs[i], k, issues}
			sigs.Add(sig)
		})
		var next []node
		for _, r := range results {
			transitions++
			for _, is := range r.issues {
				c := is.c
				c.Tier = run.Tier
				c.U = u.Name
				hist, s := r.n.hist, r.n.s
				run.Violate(is.class, is.finding, is.msg, c, func() bool {
					again, _ := c11Eval(u, probes, hist, s)
					return len(again) > 0
				})
			}
			if !seen[r.key] {
				seen[r.key] = true
				states++
				next = append(next, r.n)
				if len(r.n.hist) > maxDepth {
					maxDepth = len(r.n.hist)
				}
				if states%97 == 0 {
					run.Sample(map[string]any{"history": fmt.Sprint(r.n.hist), "abstract_state": r.n.s.key()})
				}
			}
		}
		frontier = next
	}
	return states, transitions, maxDepth, len(probes), sigs.Len()
}
