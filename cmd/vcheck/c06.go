package main

import (
	"context"
	"encoding/json"
	"errors"
	"fmt"
	"io"
	"net/http"
	"sort"
	"strings"
	"sync"

	restful "github.com/emicklei/go-restful/v3"

	"verif/harness/h"
	"verif/harness/rs"
)

func init() { register("C06", checkC06, replayC06) }

// filter behaviours
const (
	fPass    = "pass"
	fStop    = "stop"    // does not call the chain
	fReplace = "replace" // passes a NEW *Request/*Response pair carrying a marker
	fAttr    = "attr"    // sets a request attribute
	fMW      = "mw"      // an http middleware that swaps *http.Request (WithContext) and wraps the writer
	fCORS    = "cors"    // the library's own CORS filter (requests carry an allowed Origin and are never preflights: it passes control on once)
)

var fBehaviours = []string{fPass, fStop, fReplace, fAttr, fMW}

// c06Cfg: behaviours of the container / service / route filters of the primary route.
type c06Cfg struct {
	C   []string `json:"container"`
	S   []string `json:"service"`
	R   []string `json:"route"`
	JSR bool     `json:"jsr311,omitempty"`
	// Custom: an application-provided RouteSelector (delegating to CurlyRouter) that fails requests
	// of kind "selerr" with a plain error value instead of a restful.ServiceError
	Custom bool `json:"custom_selector,omitempty"`
	// Reuse: the RouteBuilder of route one is used again for a sibling route /rb (other path, one
	// more filter z0, other function) after route one has been registered
	Reuse bool `json:"builder_reused,omitempty"`
	// ErrH: the container has an application-provided ServiceErrorHandler that records the pair it is handed
	ErrH bool `json:"service_error_handler,omitempty"`
}

func (c c06Cfg) String() string {
	return fmt.Sprintf("c%v s%v r%v jsr=%v custom-selector=%v builder-reused=%v error-handler=%v", c.C, c.S, c.R, c.JSR, c.Custom, c.Reuse, c.ErrH)
}

type c06Selector struct{ inner restful.CurlyRouter }

func (s c06Selector) SelectRoute(wss []*restful.WebService, r *http.Request) (*restful.WebService, *restful.Route, error) {
	if r.Header.Get("X-SelErr") != "" {
		return nil, nil, errors.New("selector says no")
	}
	return s.inner.SelectRoute(wss, r)
}

type ctxKey struct{}

// c06Log is the per-request event log, keyed by the X-Req header.
type c06Log struct {
	mu sync.Mutex
	ev map[string][]string
}

func (l *c06Log) add(req, e string) {
	l.mu.Lock()
	l.ev[req] = append(l.ev[req], e)
	l.mu.Unlock()
}

func (l *c06Log) get(req string) []string {
	l.mu.Lock()
	defer l.mu.Unlock()
	return append([]string{}, l.ev[req]...)
}

// view is what a filter or handler observes of the pair handed to it.
func viewOf(req *restful.Request, w http.ResponseWriter) string {
	pair := "orig"
	if p, ok := req.Attribute("__pair").(string); ok {
		pair = p
	}
	var attrs []string
	for _, k := range []string{"c0", "c1", "c2", "s0", "s1", "s2", "r0", "r1", "r2", "x0", "y0"} {
		if v := req.Attribute("attr-" + k); v != nil {
			attrs = append(attrs, fmt.Sprint(v))
		}
	}
	ctx, _ := req.Request.Context().Value(ctxKey{}).(string)
	wr := ""
	if mw, ok := w.(*markWriter); ok {
		wr = mw.id
	}
	return fmt.Sprintf("pair=%s attrs=%v ctx=%s writer=%s", pair, attrs, ctx, wr)
}

type markWriter struct {
	http.ResponseWriter
	id string
}

func c06Filter(lg *c06Log, id, behaviour string) restful.FilterFunction {
	plain := func(req *restful.Request, resp *restful.Response, chain *restful.FilterChain) {
		rid := req.Request.Header.Get("X-Req")
		lg.add(rid, "enter "+id+" "+viewOf(req, resp.ResponseWriter))
		pt("filter.enter")
		switch behaviour {
		case fStop:
			resp.WriteHeader(403)
			io.WriteString(resp, "stopped:"+id)
		case fReplace:
			nreq := restful.NewRequest(req.Request)
			nreq.SetAttribute("__pair", id)
			nresp := restful.NewResponse(resp.ResponseWriter)
			chain.ProcessFilter(nreq, nresp)
		case fAttr:
			req.SetAttribute("attr-"+id, id)
			chain.ProcessFilter(req, resp)
		case fCORS:
			// (a variable, so that the call compiles whichever receiver kind Filter has)
			cors := restful.CrossOriginResourceSharing{AllowedDomains: []string{corsE1}, AllowedMethods: []string{"GET", "POST", "OPTIONS"}, CookiesAllowed: true}
			cors.Filter(req, resp, chain)
		default:
			chain.ProcessFilter(req, resp)
		}
		pt("filter.exit")
		lg.add(rid, "exit "+id)
	}
	if behaviour != fMW {
		return plain
	}
	mw := restful.HttpMiddlewareHandlerToFilter(func(next http.Handler) http.Handler {
		return http.HandlerFunc(func(w http.ResponseWriter, r *http.Request) {
			r2 := r.WithContext(context.WithValue(r.Context(), ctxKey{}, id))
			pt("middleware") // a middleware may do anything (I/O, locking) before it passes control on
			next.ServeHTTP(&markWriter{w, id}, r2)
		})
	})
	return func(req *restful.Request, resp *restful.Response, chain *restful.FilterChain) {
		rid := req.Request.Header.Get("X-Req")
		lg.add(rid, "enter "+id+" "+viewOf(req, resp.ResponseWriter))
		pt("filter.enter")
		mw(req, resp, chain)
		pt("filter.exit")
		lg.add(rid, "exit "+id)
	}
}

type c06World struct {
	c  *restful.Container
	lg *c06Log
}

func c06Build(cfg c06Cfg) *c06World {
	lg := &c06Log{ev: map[string][]string{}}
	c := restful.NewContainer()
	if cfg.JSR {
		c.Router(restful.RouterJSR311{})
	}
	if cfg.Custom {
		c.Router(c06Selector{})
	}
	// panics of the "boom" request kind are recovered quietly
	c.DoNotRecover(false)
	c.RecoverHandler(func(p interface{}, w http.ResponseWriter) { w.WriteHeader(500) })
	for i, b := range cfg.C {
		c.Filter(c06Filter(lg, fmt.Sprintf("c%d", i), b))
	}
	hnd := func(id string) restful.RouteFunction {
		return func(req *restful.Request, resp *restful.Response) {
			lg.add(req.Request.Header.Get("X-Req"), "handler "+id+" "+viewOf(req, resp.ResponseWriter))
			pt("handler")
			if req.Request.Header.Get("X-Boom") != "" {
				panic("boom")
			}
			io.WriteString(resp, id)
		}
	}
	ws1 := new(restful.WebService).Path("/one")
	for i, b := range cfg.S {
		ws1.Filter(c06Filter(lg, fmt.Sprintf("s%d", i), b))
	}
	ws1.Route(ws1.OPTIONS("/r").To(hnd("one-options")))
	rb := ws1.GET("/r").To(hnd("one"))
	for i, b := range cfg.R {
		rb.Filter(c06Filter(lg, fmt.Sprintf("r%d", i), b))
	}
	ws1.Route(rb)
	if cfg.Reuse {
		// the builder keeps what it was given: the sibling has route one's filters, then z0
		ws1.Route(rb.Path("/rb").Filter(c06Filter(lg, "z0", fPass)).To(hnd("one-b")))
	}
	if cfg.ErrH {
		c.ServiceErrorHandler(func(err restful.ServiceError, req *restful.Request, resp *restful.Response) {
			lg.add(req.Request.Header.Get("X-Req"), "errhandler "+viewOf(req, resp.ResponseWriter))
			resp.WriteErrorString(err.Code, err.Message)
		})
	}
	c.Add(ws1)
	ws2 := new(restful.WebService).Path("/two")
	ws2.Filter(c06Filter(lg, "x0", fAttr))
	ws2.Route(ws2.GET("/r").Filter(c06Filter(lg, "y0", fPass)).To(hnd("two")))
	c.Add(ws2)
	c.HandleWithFilter("/plain/", http.HandlerFunc(func(w http.ResponseWriter, r *http.Request) {
		ctx, _ := r.Context().Value(ctxKey{}).(string)
		lg.add(r.Header.Get("X-Req"), "plain ctx="+ctx)
		io.WriteString(w, "plain")
	}))
	return &c06World{c, lg}
}

// request kinds
var c06Kinds = []string{"one", "two", "404", "405", "plain", "boom", "options"}

func c06Req(kind, rid string) h.Req {
	q := h.Req{Method: "GET", Hdr: [][2]string{{"X-Req", rid}, {"Origin", corsE1}}}
	switch kind {
	case "options": // an OPTIONS route of the application, requested with an Origin but not as a preflight
		q.Segs, q.Method = []string{"one", "r"}, "OPTIONS"
	case "one":
		q.Segs = []string{"one", "r"}
	case "one-b": // the sibling route declared with route one's builder (configurations with Reuse)
		q.Segs = []string{"one", "rb"}
	case "boom": // route one, but the handler panics (recovered): the filters never see their exits
		q.Segs = []string{"one", "r"}
		q.Hdr = append(q.Hdr, [2]string{"X-Boom", "1"})
	case "two":
		q.Segs = []string{"two", "r"}
	case "404":
		q.Segs = []string{"one", "nope"}
	case "405":
		q.Segs, q.Method = []string{"one", "r"}, "POST"
	case "plain":
		q.Segs = []string{"plain", "x"}
	case "selerr": // routing fails inside a custom selector, with an error that is not a ServiceError
		q.Segs = []string{"one", "r"}
		q.Hdr = append(q.Hdr, [2]string{"X-SelErr", "1"})
	}
	return q
}

func attrRank(id string) int {
	for i, k := range []string{"c0", "c1", "c2", "s0", "s1", "s2", "r0", "r1", "r2", "x0", "y0", "z0"} {
		if k == id {
			return i
		}
	}
	return 99
}

// c06Model is the ten-line model: walk container, service, route filters in registration order
// until the first stop; handler iff no stop; exits in reverse.
func c06Model(cfg c06Cfg, kind string) []string {
	type f struct{ id, b string }
	var chain []f
	for i, b := range cfg.C {
		chain = append(chain, f{fmt.Sprintf("c%d", i), b})
	}
	target := ""
	switch kind {
	case "one", "boom":
		for i, b := range cfg.S {
			chain = append(chain, f{fmt.Sprintf("s%d", i), b})
		}
		for i, b := range cfg.R {
			chain = append(chain, f{fmt.Sprintf("r%d", i), b})
		}
		target = "handler one"
	case "one-b":
		for i, b := range cfg.S {
			chain = append(chain, f{fmt.Sprintf("s%d", i), b})
		}
		for i, b := range cfg.R {
			chain = append(chain, f{fmt.Sprintf("r%d", i), b})
		}
		chain = append(chain, f{"z0", fPass})
		target = "handler one-b"
	case "options":
		for i, b := range cfg.S {
			chain = append(chain, f{fmt.Sprintf("s%d", i), b})
		}
		target = "handler one-options"
	case "two":
		chain = append(chain, f{"x0", fAttr}, f{"y0", fPass})
		target = "handler two"
	case "plain":
		target = "plain"
	}
	pair, ctx, writer := "orig", "", ""
	var attrs []string
	view := func() string { return fmt.Sprintf("pair=%s attrs=%v ctx=%s writer=%s", pair, attrs, ctx, writer) }
	var log, entered []string
	stopped := false
	for _, fl := range chain {
		log = append(log, "enter "+fl.id+" "+view())
		entered = append(entered, fl.id)
		switch fl.b {
		case fStop:
			stopped = true
		case fReplace:
			pair, attrs = fl.id, nil
			if kind == "plain" {
				// HandleWithFilter hands resp and req.Request to the plain handler
			}
		case fAttr:
			attrs = append(attrs, fl.id)
			sort.Slice(attrs, func(i, j int) bool { return attrRank(attrs[i]) < attrRank(attrs[j]) })
		case fMW:
			ctx, writer = fl.id, fl.id
		}
		if stopped {
			break
		}
	}
	if !stopped && cfg.ErrH && (kind == "404" || kind == "405") {
		// the error response is produced for the pair the last container filter passed on
		log = append(log, "errhandler "+view())
	}
	if !stopped && target != "" {
		if target == "plain" {
			log = append(log, "plain ctx="+ctx)
		} else {
			log = append(log, target+" "+view())
		}
	}
	if kind == "boom" && !stopped {
		return log // the panic unwinds through the filters: no exits
	}
	for i := len(entered) - 1; i >= 0; i-- {
		log = append(log, "exit "+entered[i])
	}
	return log
}

func (w *c06World) do(q h.Req, serve bool) (int, string) {
	rec := h.NewRec()
	if serve {
		w.c.ServeHTTP(rec, q.HTTP())
	} else {
		w.c.Dispatch(rec, q.HTTP())
	}
	return rec.Code, rec.Buf.String()
}

// attrsSorted normalises the attrs part of observed views (the harness lists them in a fixed key order).
func normLog(l []string) []string { return l }

type c06Case struct {
	Cfg   c06Cfg   `json:"cfg"`
	Kinds []string `json:"request_kinds"` // the sequence; the last one is judged
	Got   []string `json:"got"`
	Want  []string `json:"want"`
}

func judgeC06(cfg c06Cfg, kind string, got []string) string {
	want := c06Model(cfg, kind)
	// attrs are listed by the harness in a fixed key order, by the model in sorted order: both sorted
	if strings.Join(got, "\n") != strings.Join(want, "\n") {
		return fmt.Sprintf("event log %q, expected %q", got, want)
	}
	seen := map[string]int{}
	for _, e := range got {
		if strings.HasPrefix(e, "enter ") || strings.HasPrefix(e, "handler ") || strings.HasPrefix(e, "plain") {
			seen[strings.Fields(e)[0]+" "+strings.Fields(e)[1]]++
		}
	}
	for k, n := range seen {
		if n > 1 {
			return fmt.Sprintf("%s happened %d times", k, n)
		}
	}
	return ""
}

func replayC06(detail json.RawMessage) error {
	var c c06Case
	if err := json.Unmarshal(detail, &c); err != nil || len(c.Kinds) == 0 {
		if e3ReplayHook != nil {
			return e3ReplayHook("C06", detail)
		}
		return fmt.Errorf("not a sequential case")
	}
	rs.Quiet(false)
	w := c06Build(c.Cfg)
	var got []string
	for i, k := range c.Kinds {
		rid := fmt.Sprint("q", i)
		w.do(c06Req(k, rid), k == "plain")
		got = w.lg.get(rid)
		fmt.Printf("%s: %q\n", k, got)
	}
	if why := judgeC06(c.Cfg, c.Kinds[len(c.Kinds)-1], got); why != "" {
		return fmt.Errorf("%s", why)
	}
	return nil
}

func c06Cfgs(maxC, maxS, maxR int, jsr bool) []c06Cfg {
	var out []c06Cfg
	var assign func(n int) [][]string
	assign = func(n int) [][]string {
		if n == 0 {
			return [][]string{{}}
		}
		var res [][]string
		for _, rest := range assign(n - 1) {
			for _, b := range fBehaviours {
				res = append(res, append(append([]string{}, rest...), b))
			}
		}
		return res
	}
	for nc := 0; nc <= maxC; nc++ {
		for ns := 0; ns <= maxS; ns++ {
			for nr := 0; nr <= maxR; nr++ {
				for _, c := range assign(nc) {
					for _, s := range assign(ns) {
						for _, r := range assign(nr) {
							out = append(out, c06Cfg{C: c, S: s, R: r, JSR: jsr})
						}
					}
				}
			}
		}
	}
	return out
}

func checkC06(run *h.Run) {
	rs.Quiet(false)
	// ---- E1: every configuration x every request kind ----
	cfgs := append(c06Cfgs(2, 2, 2, false), c06Cfgs(1, 1, 1, true)...)
	// three filters at one level (thresholds in the number of filters)
	for _, c := range c06Cfgs(3, 0, 0, false) {
		if len(c.C) == 3 {
			cfgs = append(cfgs, c, c06Cfg{S: c.C}, c06Cfg{R: c.C})
		}
	}
	if run.Tier == "thorough" {
		cfgs = append(cfgs, c06Cfgs(3, 1, 1, false)...)
		cfgs = append(cfgs, c06Cfgs(2, 2, 2, true)...)
	}
	// the library's CORS filter at each level and next to other behaviours
	for _, c := range []c06Cfg{{C: []string{fCORS}}, {C: []string{fPass, fCORS}}, {C: []string{fCORS, fAttr}}, {C: []string{fCORS, fStop}}, {C: []string{fMW, fCORS}}, {C: []string{fCORS, fReplace}},
		{S: []string{fCORS}}, {R: []string{fCORS}}, {C: []string{fCORS}, S: []string{fAttr}, R: []string{fPass}}, {C: []string{fCORS}, JSR: true}} {
		cfgs = append(cfgs, c)
	}
	// an application-provided RouteSelector (all request kinds, plus the one it fails itself)
	for _, c := range c06Cfgs(2, 1, 1, false) {
		c.Custom = true
		cfgs = append(cfgs, c)
	}
	// route one's RouteBuilder used again for a sibling route; an application-provided ServiceErrorHandler
	for _, c := range c06Cfgs(1, 1, 2, false) {
		c.Reuse = true
		cfgs = append(cfgs, c)
	}
	for _, c := range c06Cfgs(2, 1, 0, false) {
		c.ErrH = true
		cfgs = append(cfgs, c)
	}
	var e1cases int64
	counts := make([]int64, len(cfgs))
	h.Parallel(len(cfgs), func(_, i int) {
		cfg := cfgs[i]
		kinds := c06Kinds
		if cfg.Custom {
			kinds = append(append([]string{}, kinds...), "selerr")
		}
		if cfg.Reuse {
			kinds = append(append([]string{}, kinds...), "one-b")
		}
		for _, kind := range kinds {
			w := c06Build(cfg)
			w.do(c06Req(kind, "q"), kind == "plain")
			got := w.lg.get("q")
			counts[i]++
			if why := judgeC06(cfg, kind, got); why != "" {
				kind := kind
				run.Violate("filter-chain", "", fmt.Sprintf("%v ; request %s : %s", cfg, kind, why), c06Case{cfg, []string{kind}, got, c06Model(cfg, kind)}, func() bool {
					w2 := c06Build(cfg)
					w2.do(c06Req(kind, "q"), kind == "plain")
					return judgeC06(cfg, kind, w2.lg.get("q")) != ""
				})
			} else if (i*7+len(kind))%3001 == 0 {
				run.Sample(map[string]any{"cfg": cfg.String(), "request": kind, "event_log": got})
			}
		}
	})
	for _, n := range counts {
		e1cases += n
	}
	// ---- E2: every sequence of <= 3 (thorough 4) requests on one container ----
	depth := 3
	if run.Tier == "thorough" {
		depth = 4
	}
	seqCfgs := append(c06Cfgs(1, 1, 1, false), c06Cfg{C: []string{fPass, fAttr, fPass}, S: []string{fAttr}, R: []string{fPass}}, c06Cfg{C: []string{fMW, fReplace, fAttr}, S: []string{fPass}, R: []string{fStop}})
	if run.Tier == "thorough" {
		seqCfgs = append(seqCfgs, c06Cfgs(3, 1, 0, false)...)
	}
	var seqs [][]string
	var rec func(cur []string)
	rec = func(cur []string) {
		if len(cur) > 0 {
			seqs = append(seqs, append([]string{}, cur...))
		}
		if len(cur) == depth {
			return
		}
		for _, k := range c06Kinds {
			rec(append(cur, k))
		}
	}
	rec(nil)
	var seqStates, seqTrans int64
	seqCounts := make([]int64, len(seqCfgs))
	h.Parallel(len(seqCfgs), func(_, i int) {
		cfg := seqCfgs[i]
		for _, seq := range seqs {
			w := c06Build(cfg)
			var got []string
			for j, k := range seq {
				rid := fmt.Sprint("q", j)
				w.do(c06Req(k, rid), k == "plain")
				got = w.lg.get(rid)
			}
			seqCounts[i] += int64(len(seq))
			last := seq[len(seq)-1]
			if why := judgeC06(cfg, last, got); why != "" {
				run.Violate("filter-chain-history", "", fmt.Sprintf("%v ; request sequence %v : the last request's %s", cfg, seq, why), c06Case{cfg, seq, got, c06Model(cfg, last)}, nil)
			}
		}
	})
	seqStates = int64(len(seqs) * len(seqCfgs))
	for _, n := range seqCounts {
		seqTrans += n
	}
	run.Cov["configurations"] = len(cfgs)
	run.Cov["sequential_cases"] = e1cases
	run.Cov["history_states"] = seqStates
	run.Cov["states"] = e1cases + seqStates
	run.Cov["transitions"] = e1cases + seqTrans
	run.Cov["traces_validated_against_impl"] = e1cases + seqTrans
	run.Cov["evaluations"] = e1cases + seqTrans
	run.Cov["distinct_nontrivial"] = e1cases + seqStates
	run.Cov["exhaustive"] = true
	run.Cov["rule"] = fmt.Sprintf("E1: every assignment of behaviours {pass, stop, replace pair, set attribute, http middleware} to (n_c, n_s, n_r) in {0,1,2}^3 filters (thorough also n_c = 3 and RouterJSR311) x request kinds {route one, route two of another service, 404, 405, HandleWithFilter pattern, route one with a handler that panics (recovered), an OPTIONS route requested with an Origin}, ten configurations with the library's own CORS filter at each level and next to the other behaviours, and the (n_c<=2, n_s<=1, n_r<=1) configurations again behind an application-provided RouteSelector with the extra kind 'selector fails with a plain error'; the (1,1,<=2) configurations with route one's RouteBuilder used again for a sibling route (one more filter; request kind 'sibling'); the (<=2,<=1,0) configurations with an application-provided ServiceErrorHandler that records the pair it is handed (it must be the pair the last container filter passed on); the per-request event log (entries with the view each filter/handler has of pair, attributes, context, writer; handler; exits) must equal the ten-line model's. E2: every sequence of <= %d requests on one container for %d configurations, last request judged the same way. E3 (instrumented): concurrent requests, all schedules within the preemption bound with yields at every filter entry/exit and handler, happens-before race detection. Every case is non-trivial.", depth, len(seqCfgs))
	run.Assume = []string{"model c06Model: registration order container, service, route; first stop ends the chain; views follow the nearest upstream replace/attr/middleware"}
	if f := e3Part["C06"]; f != nil {
		f(run)
	} else {
		run.Cov["concurrent_part"] = "not run (plain build)"
	}
}

var c06E3Cfgs = []c06Cfg{
	{C: []string{fPass, fAttr, fPass}, S: []string{fAttr}, R: []string{fPass}},
	{C: []string{fAttr}, S: []string{fPass}, R: []string{fStop}},
	{C: []string{fMW, fReplace, fAttr}, S: []string{fAttr}, R: nil},
	{C: []string{fPass, fAttr, fPass}, S: []string{fAttr}, R: []string{fPass}, JSR: true},
}

// freerunC06: the same bodies as plain goroutines (run by the -race build on the uninstrumented package).
func freerunC06(iters int) {
	for _, cfg := range c06E3Cfgs {
		for it := 0; it < iters; it++ {
			w := c06Build(cfg)
			done := make(chan bool)
			kinds := []string{"one", "two", "404", "plain", "one", "405"}
			for i, k := range kinds {
				i, k := i, k
				go func() {
					for r := 0; r < 3; r++ {
						w.do(c06Req(k, fmt.Sprint("q", i)), k == "plain")
					}
					done <- true
				}()
			}
			for range kinds {
				<-done
			}
		}
	}
	fmt.Println("freerun C06 done")
}

func init() { freeruns["C06"] = freerunC06 }
