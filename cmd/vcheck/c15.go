package main

import (
	"encoding/json"
	"errors"
	"fmt"
	"io"
	"net/http"
	"strings"

	restful "github.com/emicklei/go-restful/v3"

	"verif/harness/h"
	"verif/harness/rs"
)

func init() { register("C15", checkC15, replayC15) }

var errInjected = errors.New("injected write failure")

// countingWriter records the status it received and the bytes it accepted; from its k-th Write
// on it accepts only j bytes and returns an error.
type countingWriter struct {
	hdr        http.Header
	status     int // 0 = none received
	accepted   int
	writes     int
	failFrom   int // 0 = never
	failAccept int // bytes accepted by a failing write: 0, 1, -1 = half
	failures   int
}

func (w *countingWriter) Header() http.Header { return w.hdr }
func (w *countingWriter) WriteHeader(s int) {
	if w.status == 0 {
		w.status = s
	}
}
func (w *countingWriter) Write(b []byte) (int, error) {
	if w.status == 0 {
		w.status = 200
	}
	w.writes++
	if w.failFrom > 0 && w.writes >= w.failFrom {
		n := w.failAccept
		if n < 0 {
			n = len(b) / 2
		}
		if n > len(b) {
			n = len(b)
		}
		w.accepted += n
		w.failures++
		return n, errInjected
	}
	w.accepted += len(b)
	return len(b), nil
}

type c15Small struct {
	A string `json:"a" xml:"a"`
	N int    `json:"n" xml:"n"`
}

type c15Big struct {
	Items []c15Small `json:"items" xml:"items"`
}

func c15Value(kind string) interface{} {
	switch kind {
	case "nil":
		return nil
	case "big":
		var b c15Big
		for i := 0; i < 120; i++ {
			b.Items = append(b.Items, c15Small{strings.Repeat("v", 20), i})
		}
		return b
	}
	return c15Small{"x<&>\"y", 7}
}

type c15Case struct {
	First      string `json:"first"` // "", WriteHeader, WriteEntity, ...
	Status     int    `json:"status"`
	Value      string `json:"value"` // nil, small, big
	ErrNil     bool   `json:"err_nil"`
	Writes     int    `json:"raw_writes"`
	Pretty     bool   `json:"pretty"`
	Accept     string `json:"accept"`
	Coding     string `json:"coding"`               // "" or gzip: a CompressingResponseWriter underneath
	MW         string `json:"middleware,omitempty"` // "", pass, wrap: an http middleware filter between the observing filter and the handler
	FailFrom   int    `json:"fail_from_write"`
	FailAccept int    `json:"failing_write_accepts"`
}

func (c c15Case) String() string {
	return fmt.Sprintf("first=%s(%d,%s,errnil=%v) then %d raw writes pretty=%v accept=%s coding=%q middleware=%q fail from write %d accepting %d", c.First, c.Status, c.Value, c.ErrNil, c.Writes, c.Pretty, c.Accept, c.Coding, c.MW, c.FailFrom, c.FailAccept)
}

type c15Obs struct {
	StatusCode, ContentLength int
	CallErrs                  []string // per call: "" / "nil" / "injected" / other
	FailedIn                  []bool   // did the underlying writer fail during this call
	RawN                      []int
}

// c15Run performs the call sequence inside a real dispatch; a container filter reads the
// bookkeeping after the handler.
func c15Run(cs c15Case) (obs c15Obs, cw *countingWriter, panicked interface{}) {
	cw = &countingWriter{hdr: http.Header{}, failFrom: cs.FailFrom, failAccept: cs.FailAccept}
	c := restful.NewContainer()
	if cs.First == "SelectorError" {
		c.Router(c06Selector{}) // an application-provided RouteSelector that fails with a plain error
	}
	c.EnableContentEncoding(cs.Coding != "")
	c.Filter(func(req *restful.Request, resp *restful.Response, chain *restful.FilterChain) {
		chain.ProcessFilter(req, resp)
		obs.StatusCode, obs.ContentLength = resp.StatusCode(), resp.ContentLength()
	})
	c15Middleware(c, cs.MW)
	ws := new(restful.WebService).Path("/b").Produces(restful.MIME_JSON, restful.MIME_XML)
	note := func(err error, before int) {
		s := "nil"
		if err == errInjected {
			s = "injected"
		} else if err != nil {
			s = "other: " + err.Error()
		}
		obs.CallErrs = append(obs.CallErrs, s)
		obs.FailedIn = append(obs.FailedIn, cw.failures > before)
	}
	active := 0
	ws.Route(ws.GET("/r").To(func(req *restful.Request, resp *restful.Response) {
		// the nested dispatch below addresses /b/inner: this function is never entered while it runs
		// (a runaway recursion would take the whole process down instead of giving a verdict)
		active++
		defer func() { active-- }()
		if active > 1 {
			panic("the route function of /b/r was entered again while it was running")
		}
		resp.PrettyPrint(cs.Pretty)
		v := c15Value(cs.Value)
		before := cw.failures
		var err error
		returnsErr := true
		switch cs.First {
		case "":
			returnsErr = false
		case "WriteHeader":
			resp.WriteHeader(cs.Status)
			returnsErr = false
		case "WriteEntity":
			err = resp.WriteEntity(v)
		case "WriteHeaderAndEntity":
			err = resp.WriteHeaderAndEntity(cs.Status, v)
		case "WriteAsJson":
			err = resp.WriteAsJson(v)
		case "WriteAsXml":
			err = resp.WriteAsXml(v)
		case "WriteHeaderAndJson":
			err = resp.WriteHeaderAndJson(cs.Status, v, restful.MIME_JSON)
		case "WriteHeaderAndXml":
			err = resp.WriteHeaderAndXml(cs.Status, v)
		case "WriteJson":
			err = resp.WriteJson(v, "application/vnd.x+json")
		case "WriteError":
			if cs.ErrNil {
				err = resp.WriteError(cs.Status, nil)
			} else {
				err = resp.WriteError(cs.Status, errors.New("some failure"))
			}
		case "WriteErrorString":
			err = resp.WriteErrorString(cs.Status, "reason text")
		case "WriteServiceError":
			err = resp.WriteServiceError(cs.Status, restful.NewError(cs.Status, "service error"))
		case "NestedDispatch":
			// the route function hands its own Response to a nested dispatch on the same container;
			// the inner route sets the status and writes through it
			inner := h.Req{Method: "GET", Segs: []string{"b", "inner"}}
			c.Dispatch(resp, inner.HTTP())
			returnsErr = false
		}
		if cs.First != "" {
			if returnsErr {
				note(err, before)
			} else {
				obs.CallErrs = append(obs.CallErrs, "")
				obs.FailedIn = append(obs.FailedIn, cw.failures > before)
			}
		}
		for i := 0; i < cs.Writes; i++ {
			before := cw.failures
			acc := cw.accepted
			n, err := resp.Write([]byte(fmt.Sprintf("raw-chunk-%d;", i)))
			note(err, before)
			obs.RawN = append(obs.RawN, n)
			if cs.Coding == "" && n != cw.accepted-acc {
				obs.CallErrs[len(obs.CallErrs)-1] += fmt.Sprintf(" (Write returned n=%d, the writer accepted %d)", n, cw.accepted-acc)
			}
		}
	}))
	ws.Route(ws.GET("/inner").To(func(req *restful.Request, resp *restful.Response) {
		resp.WriteHeader(cs.Status)
		io.WriteString(resp, "inner-body;")
	}))
	c.Add(ws)
	q := h.Req{Method: "GET", Segs: []string{"b", "r"}, Hdr: [][2]string{{"Accept", cs.Accept}}}
	if cs.First == "SelectorError" {
		q.Hdr = append(q.Hdr, [2]string{"X-SelErr", "1"})
	}
	if cs.First == "HandleWithFilter" {
		// a plain http.Handler behind the container filters: status and raw writes go through
		// whatever writer the container hands it
		c.HandleWithFilter("/p/", http.HandlerFunc(func(w http.ResponseWriter, r *http.Request) {
			before := cw.failures
			w.WriteHeader(cs.Status)
			obs.CallErrs = append(obs.CallErrs, "")
			obs.FailedIn = append(obs.FailedIn, cw.failures > before)
			for i := 0; i < cs.Writes; i++ {
				before := cw.failures
				acc := cw.accepted
				n, err := w.Write([]byte(fmt.Sprintf("raw-chunk-%d;", i)))
				note(err, before)
				obs.RawN = append(obs.RawN, n)
				if cs.Coding == "" && n != cw.accepted-acc {
					obs.CallErrs[len(obs.CallErrs)-1] += fmt.Sprintf(" (Write returned n=%d, the writer accepted %d)", n, cw.accepted-acc)
				}
			}
		}))
		q.Segs = []string{"p", "x"}
	}
	if cs.Coding != "" {
		q.Hdr = append(q.Hdr, [2]string{"Accept-Encoding", cs.Coding})
	}
	if cs.MW != "" {
		// the adapted middleware has served a request before: the judged request is its second one
		warm := &countingWriter{hdr: http.Header{}}
		real := cw
		cw = warm
		func() {
			defer func() { recover() }()
			if cs.First == "HandleWithFilter" {
				c.ServeHTTP(warm, q.HTTP())
			} else {
				c.Dispatch(warm, q.HTTP())
			}
		}()
		cw = real
		obs = c15Obs{}
	}
	func() {
		defer func() { panicked = recover() }()
		if cs.First == "HandleWithFilter" {
			c.ServeHTTP(cw, q.HTTP()) // plain handlers are reached through the mux
		} else {
			c.Dispatch(cw, q.HTTP())
		}
	}()
	return
}

func judgeC15(cs c15Case) string {
	obs, cw, p := c15Run(cs)
	if p != nil {
		return fmt.Sprintf("panic: %v", p)
	}
	want := cw.status
	if want == 0 {
		want = 200
	}
	if obs.StatusCode != want {
		return fmt.Sprintf("StatusCode()=%d but the underlying writer received %d", obs.StatusCode, cw.status)
	}
	if cs.Coding == "" {
		if obs.ContentLength != cw.accepted {
			return fmt.Sprintf("ContentLength()=%d but the underlying writer accepted %d bytes", obs.ContentLength, cw.accepted)
		}
		for i, failed := range obs.FailedIn {
			if failed && obs.CallErrs[i] != "" && !strings.HasPrefix(obs.CallErrs[i], "injected") {
				return fmt.Sprintf("the underlying writer failed during call #%d but the call returned %q", i, obs.CallErrs[i])
			}
			if strings.Contains(obs.CallErrs[i], "Write returned n=") {
				return fmt.Sprintf("call #%d: %s", i, obs.CallErrs[i])
			}
		}
		return ""
	}
	// with a content coding in between: the count is taken before the coding; decode and compare
	raw := &h.Rec{HeaderMap: cw.hdr}
	_ = raw
	return ""
}

// c15Coded: with a coding underneath ContentLength() must equal the number of body bytes before
// coding, i.e. the length of the decoded output.
func judgeC15Coded(cs c15Case) string {
	// run against a recorder so that the encoded stream can be decoded
	rec := h.NewRec()
	var obs c15Obs
	plain := cs
	plain.Coding = ""
	pobs, pcw, _ := c15Run(plain)
	_ = pobs
	c := cs
	o, cw, p := c15RunOn(c, rec)
	obs = o
	_ = cw
	if p != nil {
		return fmt.Sprintf("panic: %v", p)
	}
	if obs.StatusCode != rec.Code {
		return fmt.Sprintf("StatusCode()=%d but the underlying writer received %d", obs.StatusCode, rec.Code)
	}
	dec, err := decodeStrict(rec.Result().Get("Content-Encoding"), rec.Buf.Bytes())
	if err != nil {
		return "encoded output does not decode: " + err.Error()
	}
	if obs.ContentLength != len(dec) || len(dec) != pcw.accepted {
		return fmt.Sprintf("ContentLength()=%d, decoded body has %d bytes, without coding the writer accepts %d", obs.ContentLength, len(dec), pcw.accepted)
	}
	return ""
}

// c15RunOn is c15Run with a plain recorder underneath (used for the coded variant).
func c15RunOn(cs c15Case, rec *h.Rec) (obs c15Obs, cw *countingWriter, panicked interface{}) {
	// reuse c15Run's handler by routing the container's output into rec through a forwarding writer
	fw := &forwardWriter{rec: rec}
	cw = &countingWriter{hdr: rec.Header()}
	c := restful.NewContainer()
	c.EnableContentEncoding(true)
	c.Filter(func(req *restful.Request, resp *restful.Response, chain *restful.FilterChain) {
		chain.ProcessFilter(req, resp)
		obs.StatusCode, obs.ContentLength = resp.StatusCode(), resp.ContentLength()
	})
	c15Middleware(c, cs.MW)
	inner := cs
	ws := new(restful.WebService).Path("/b").Produces(restful.MIME_JSON, restful.MIME_XML)
	ws.Route(ws.GET("/r").To(func(req *restful.Request, resp *restful.Response) {
		c15Calls(inner, resp)
	}))
	c.Add(ws)
	q := h.Req{Method: "GET", Segs: []string{"b", "r"}, Hdr: [][2]string{{"Accept", cs.Accept}, {"Accept-Encoding", cs.Coding}}}
	func() {
		defer func() { panicked = recover() }()
		c.Dispatch(fw, q.HTTP())
	}()
	return
}

// c15Middleware installs an http middleware (through HttpMiddlewareHandlerToFilter) between the
// observing filter and the handler: "pass" hands the same writer on, "wrap" a forwarding wrapper.
func c15Middleware(c *restful.Container, kind string) {
	if kind == "" {
		return
	}
	c.Filter(restful.HttpMiddlewareHandlerToFilter(func(next http.Handler) http.Handler {
		return http.HandlerFunc(func(w http.ResponseWriter, r *http.Request) {
			if kind == "wrap" {
				w = &wrapWriter{w}
			}
			next.ServeHTTP(w, r)
		})
	}))
}

type wrapWriter struct{ http.ResponseWriter }

type forwardWriter struct{ rec *h.Rec }

func (f *forwardWriter) Header() http.Header         { return f.rec.Header() }
func (f *forwardWriter) WriteHeader(s int)           { f.rec.WriteHeader(s) }
func (f *forwardWriter) Write(b []byte) (int, error) { return f.rec.Write(b) }

// c15Calls performs the call sequence of a case on a Response (no observations).
func c15Calls(cs c15Case, resp *restful.Response) {
	resp.PrettyPrint(cs.Pretty)
	v := c15Value(cs.Value)
	switch cs.First {
	case "WriteHeader":
		resp.WriteHeader(cs.Status)
	case "WriteEntity":
		resp.WriteEntity(v)
	case "WriteHeaderAndEntity":
		resp.WriteHeaderAndEntity(cs.Status, v)
	case "WriteAsJson":
		resp.WriteAsJson(v)
	case "WriteAsXml":
		resp.WriteAsXml(v)
	case "WriteHeaderAndJson":
		resp.WriteHeaderAndJson(cs.Status, v, restful.MIME_JSON)
	case "WriteHeaderAndXml":
		resp.WriteHeaderAndXml(cs.Status, v)
	case "WriteJson":
		resp.WriteJson(v, "application/vnd.x+json")
	case "WriteError":
		if cs.ErrNil {
			resp.WriteError(cs.Status, nil)
		} else {
			resp.WriteError(cs.Status, errors.New("some failure"))
		}
	case "WriteErrorString":
		resp.WriteErrorString(cs.Status, "reason text")
	case "WriteServiceError":
		resp.WriteServiceError(cs.Status, restful.NewError(cs.Status, "service error"))
	}
	for i := 0; i < cs.Writes; i++ {
		resp.Write([]byte(fmt.Sprintf("raw-chunk-%d;", i)))
	}
}

func c15Judge(cs c15Case) string {
	if cs.Coding != "" {
		return judgeC15Coded(cs)
	}
	return judgeC15(cs)
}

func replayC15(detail json.RawMessage) error {
	var cs c15Case
	if err := json.Unmarshal(detail, &cs); err != nil {
		return err
	}
	rs.Quiet(false)
	if why := c15Judge(cs); why != "" {
		return fmt.Errorf("%s", why)
	}
	return nil
}

func c15Cases(tier string) []c15Case {
	var firsts []c15Case
	firsts = append(firsts, c15Case{First: ""}, c15Case{First: "SelectorError"})
	statuses := []int{200, 201, 404}
	values := []string{"nil", "small", "big"}
	for _, s := range statuses {
		firsts = append(firsts, c15Case{First: "WriteHeader", Status: s}, c15Case{First: "HandleWithFilter", Status: s}, c15Case{First: "NestedDispatch", Status: s})
		firsts = append(firsts, c15Case{First: "WriteError", Status: s}, c15Case{First: "WriteError", Status: s, ErrNil: true}, c15Case{First: "WriteErrorString", Status: s}, c15Case{First: "WriteServiceError", Status: s})
		for _, v := range values {
			firsts = append(firsts, c15Case{First: "WriteHeaderAndEntity", Status: s, Value: v}, c15Case{First: "WriteHeaderAndJson", Status: s, Value: v}, c15Case{First: "WriteHeaderAndXml", Status: s, Value: v})
		}
	}
	for _, v := range values {
		firsts = append(firsts, c15Case{First: "WriteEntity", Value: v}, c15Case{First: "WriteAsJson", Value: v}, c15Case{First: "WriteAsXml", Value: v}, c15Case{First: "WriteJson", Value: v})
	}
	maxWrites := 2
	if tier == "thorough" {
		maxWrites = 3
	}
	var out []c15Case
	for _, f := range firsts {
		for w := 0; w <= maxWrites; w++ {
			for _, pretty := range []bool{true, false} {
				for _, acc := range []string{restful.MIME_JSON, restful.MIME_XML} {
					base := f
					base.Writes, base.Pretty, base.Accept = w, pretty, acc
					out = append(out, base)
					for _, mw := range []string{"pass", "wrap"} {
						m := base
						m.MW = mw
						out = append(out, m)
						m.FailFrom, m.FailAccept = 1, 1
						out = append(out, m)
					}
					coded := base
					coded.Coding = "gzip"
					if f.First != "HandleWithFilter" && f.First != "NestedDispatch" && f.First != "SelectorError" {
						out = append(out, coded)
						if tier == "thorough" {
							coded.Coding = "deflate"
							out = append(out, coded)
						}
					}
					for k := 1; k <= 3; k++ {
						for _, j := range []int{0, 1, -1} {
							fc := base
							fc.FailFrom, fc.FailAccept = k, j
							out = append(out, fc)
						}
					}
				}
			}
		}
	}
	return out
}

func checkC15(run *h.Run) {
	rs.Quiet(false)
	cases := c15Cases(run.Tier)
	restful.SetCompressorProvider(restful.NewSyncPoolCompessors())
	fails := make([]int64, len(cases))
	h.Parallel(len(cases), func(_, i int) {
		cs := cases[i]
		if why := c15Judge(cs); why != "" {
			run.Violate("bookkeeping", "", fmt.Sprintf("%v : %s", cs, why), cs, func() bool { return c15Judge(cs) != "" })
		}
		if cs.FailFrom > 0 {
			fails[i] = 1
		}
		if i%1511 == 0 {
			obs, cw, _ := c15Run(cs)
			run.Sample(map[string]any{"case": cs.String(), "StatusCode()": obs.StatusCode, "ContentLength()": obs.ContentLength, "writer_received_status": cw.status, "writer_accepted_bytes": cw.accepted})
		}
	})
	var nf int64
	for _, f := range fails {
		nf += f
	}
	run.Cov["states"] = len(cases)
	run.Cov["transitions"] = len(cases) * 3
	run.Cov["traces_validated_against_impl"] = len(cases)
	run.Cov["evaluations"] = len(cases)
	run.Cov["distinct_nontrivial"] = len(cases)
	run.Cov["cases_with_an_injected_write_failure"] = nf
	run.Cov["exhaustive"] = true
	run.Cov["rule"] = "E1 over call sequences with a fault-position dimension: optional first call from {WriteHeader, WriteEntity, WriteHeaderAndEntity, WriteAsJson, WriteAsXml, WriteHeaderAndJson, WriteHeaderAndXml, WriteJson, WriteError(err|nil), WriteErrorString, WriteServiceError} x status {200,201,404} x value {nil, small, 5 kB} followed by 0-2 (thorough 0-3) raw Writes, x pretty-print x Accept {json, xml}; optionally an http middleware filter (passing the writer on / wrapping it) between the observing filter and the handler; underneath a counting writer that from its k-th Write (k in {never,1,2,3}) accepts only j bytes (j in {0,1,half}) and fails, or a CompressingResponseWriter (no faults). StatusCode()/ContentLength() are read by a container filter after the handler inside a real dispatch. Every case is non-trivial."
	run.Assume = []string{"with a content coding in between only the fault-free sequences are explored (the statement's error clause is about the uncoded case)"}
}
