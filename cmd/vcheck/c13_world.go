package main

import (
	"fmt"
	"io"
	"net/http"
	"strings"
	"sync"

	restful "github.com/emicklei/go-restful/v3"

	"verif/harness/h"
)

// chunkReader delivers a body in small chunks with a scheduling point before each read.
type chunkReader struct {
	data  []byte
	chunk int
	label string
}

func (c *chunkReader) Read(p []byte) (int, error) {
	pt(c.label)
	if len(c.data) == 0 {
		return 0, io.EOF
	}
	n := c.chunk
	if n > len(c.data) {
		n = len(c.data)
	}
	if n > len(p) {
		n = len(p)
	}
	copy(p, c.data[:n])
	c.data = c.data[n:]
	return n, nil
}
func (c *chunkReader) Close() error { return nil }

// ptRec is a recorder whose Write is a scheduling point (a write to the connection may block, so
// other requests can run in between) and that can be told to fail every write.
type ptRec struct {
	*h.Rec
	fail bool
}

func (r *ptRec) Write(b []byte) (int, error) {
	pt("conn.write")
	if r.fail {
		return 0, fmt.Errorf("client went away")
	}
	return r.Rec.Write(b)
}

func payload(id string) (string, string) {
	return "first-" + id + "-" + strings.Repeat(id, 8) + ";", "second-" + id + "-" + strings.Repeat("z"+id, 6)
}

// c13Container builds the container all request kinds use.
func c13Container(closeErrs map[string]error) *restful.Container {
	c := restful.NewContainer()
	c.EnableContentEncoding(true)
	c.DoNotRecover(false)
	c.RecoverHandler(func(p interface{}, w http.ResponseWriter) {
		w.WriteHeader(500)
		io.WriteString(w, fmt.Sprintf("recovered:%v", p))
	})
	ws := new(restful.WebService).Path("/s")
	ws.Route(ws.GET("/n/{id}").To(func(req *restful.Request, resp *restful.Response) {
		a, b := payload(req.PathParameter("id"))
		io.WriteString(resp, a)
		pt("handler.mid")
		io.WriteString(resp, b)
	}))
	ws.Route(ws.GET("/p/{id}").To(func(req *restful.Request, resp *restful.Response) {
		a, _ := payload(req.PathParameter("id"))
		io.WriteString(resp, a)
		pt("handler.mid")
		panic("boom-" + req.PathParameter("id"))
	}))
	ws.Route(ws.GET("/c/{id}").To(func(req *restful.Request, resp *restful.Response) {
		a, b := payload(req.PathParameter("id"))
		io.WriteString(resp, a)
		io.WriteString(resp, b)
		if cw, ok := resp.ResponseWriter.(*restful.CompressingResponseWriter); ok {
			cw.Close()
			pt("handler.closed")
			closeErrs[req.PathParameter("id")] = cw.Close()
			// a Flush on the closed writer (http.Flusher is part of its interface) must not reach
			// the compressor that went back to the provider
			pt("handler.flush-after-close")
			cw.Flush()
		} else {
			closeErrs[req.PathParameter("id")] = fmt.Errorf("not compressing")
		}
	}))
	ws.Route(ws.GET("/h/{id}").To(func(req *restful.Request, resp *restful.Response) {
		// what net/http's ServeContent / FileServer do for "304 Not Modified" and for errors: the
		// representation headers are taken off the response before the status is written
		resp.Header().Del("Content-Encoding")
		pt("handler.mid")
		resp.WriteHeader(http.StatusNotModified)
	}))
	ws.Route(ws.POST("/e/{id}").To(func(req *restful.Request, resp *restful.Response) {
		var v c13Ent
		if err := req.ReadEntity(&v); err != nil {
			resp.WriteErrorString(400, "read error: "+err.Error())
			return
		}
		io.WriteString(resp, v.A)
	}))
	c.Add(ws)
	return c
}

var c13NotFound = map[string]string{}

// c13NotFoundBody: what the framework writes for the routing error, measured without any coding
// (no literal expectation: the wording of error bodies is not part of the property).
func c13NotFoundBody(id string) string {
	if v, ok := c13NotFound[id]; ok {
		return v
	}
	rec := h.NewRec()
	c13Container(map[string]error{}).Dispatch(rec, (h.Req{Method: "GET", Segs: []string{"s", "n", id, "nope"}}).HTTP())
	c13NotFound[id] = rec.Buf.String()
	return c13NotFound[id]
}

// c13Request returns the request of one thread and the decoded body it must receive.
func c13Request(kind byte, id string) (h.Req, string, int) {
	a, b := payload(id)
	switch kind {
	case 'N':
		return h.Req{Method: "GET", Segs: []string{"s", "n", id}, Hdr: [][2]string{{"Accept-Encoding", "gzip"}}}, a + b, 200
	case 'D':
		return h.Req{Method: "GET", Segs: []string{"s", "n", id}, Hdr: [][2]string{{"Accept-Encoding", "deflate"}}}, a + b, 200
	case 'E':
		return h.Req{Method: "GET", Segs: []string{"s", "n", id, "nope"}, Hdr: [][2]string{{"Accept-Encoding", "gzip"}}}, c13NotFoundBody(id), 404
	case 'P':
		return h.Req{Method: "GET", Segs: []string{"s", "p", id}, Hdr: [][2]string{{"Accept-Encoding", "gzip"}}}, a + "recovered:boom-" + id, -1
	case 'C':
		return h.Req{Method: "GET", Segs: []string{"s", "c", id}, Hdr: [][2]string{{"Accept-Encoding", "deflate"}}}, a + b, 200
	case 'R':
		return h.Req{Method: "POST", Segs: []string{"s", "e", id}, Hdr: [][2]string{{"Content-Type", "application/json"}, {"Content-Encoding", "gzip"}}}, "entity-" + id + "-" + strings.Repeat(id, 40), 200
	case 'X': // gzip request body with a corrupt header: ReadEntity must return an error
		return h.Req{Method: "POST", Segs: []string{"s", "e", id}, Hdr: [][2]string{{"Content-Type", "application/json"}, {"Content-Encoding", "gzip"}}}, "read error: ", 400
	case 'H': // the handler takes the Content-Encoding header off the response (304): only the ledger verdict counts
		return h.Req{Method: "GET", Segs: []string{"s", "h", id}, Hdr: [][2]string{{"Accept-Encoding", "gzip"}}}, "", 304
	case 'F': // the underlying writer fails every write (client gone)
		return h.Req{Method: "GET", Segs: []string{"s", "n", id}, Hdr: [][2]string{{"Accept-Encoding", "gzip"}}}, "", 200
	}
	panic("kind")
}

// freerunC13: concurrent encoded requests of all kinds on every provider as plain goroutines
// (run by the -race build on the uninstrumented package).
func freerunC13(iters int) {
	for _, prov := range []string{"bounded0", "bounded1", "bounded2", "syncpool"} {
		for it := 0; it < iters/4+1; it++ {
			restful.SetCompressorProvider(newProvider(prov))
			closeErrs := map[string]error{}
			c := c13Container(closeErrs)
			kinds := "NDEPRXFNDRH"
			var wg sync.WaitGroup
			for i := range kinds {
				if kinds[i] == 'C' {
					continue
				}
				wg.Add(1)
				go func(i int) {
					defer wg.Done()
					id := fmt.Sprint(i + 1)
					q, want, _ := c13Request(kinds[i], id)
					hr := q.HTTP()
					if kinds[i] == 'R' || kinds[i] == 'X' {
						body := gzipBytes(`{"A":"` + want + `"}`)
						if kinds[i] == 'X' {
							body = []byte("this is not a gzip stream at all")
						}
						hr.Body = &chunkReader{data: body, chunk: (len(body) + 2) / 3, label: "body.read"}
						hr.ContentLength = int64(len(body))
						hr.Header.Set("Content-Length", fmt.Sprint(len(body)))
					}
					w := &ptRec{Rec: h.NewRec(), fail: kinds[i] == 'F'}
					if i%2 == 0 {
						c.ServeHTTP(w, hr)
					} else {
						c.Dispatch(w, hr)
					}
				}(i)
			}
			wg.Wait()
		}
	}
	restful.SetCompressorProvider(restful.NewSyncPoolCompessors())
	fmt.Println("freerun C13 done")
}

func init() { freeruns["C13"] = freerunC13 }
