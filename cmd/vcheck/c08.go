package main

import (
	"encoding/json"
	"fmt"
	"io"
	"net/http"
	"sort"
	"strings"

	restful "github.com/emicklei/go-restful/v3"

	"verif/harness/h"
	"verif/harness/rs"
)

func init() { register("C08", checkC08, replayC08) }

const (
	corsE1 = "http://a.example.com"
	corsE2 = "https://b.org:8443"
	corsE3 = "http://pred.example.net"
	corsE4 = "http://[::1]:3000/_@^" // punctuation whose 0x20-twin is another character
)

type corsCfg struct {
	Domains []string `json:"domains"`
	Pred    string   `json:"predicate"` // "", "e3", "none"
	Cookies bool     `json:"cookies"`
	Expose  []string `json:"expose"`
	MaxAge  int      `json:"max_age"`
	Methods []string `json:"allowed_methods,omitempty"`
	Headers []string `json:"allowed_headers,omitempty"`
	Service bool     `json:"service_level"` // filter installed on the WebService instead of the container
	JSR     bool     `json:"jsr311"`
}

func (c corsCfg) predicate() func(string) bool {
	switch c.Pred {
	case "e3":
		return func(o string) bool { return strings.EqualFold(o, corsE3) }
	case "none":
		return func(string) bool { return false }
	}
	return nil
}

// allowed is the statement's rule, transcribed.
func (c corsCfg) allowed(origin string) bool {
	if origin == "" {
		return false
	}
	p := c.predicate()
	if len(c.Domains) == 0 && p == nil {
		return true // no restriction configured
	}
	for _, d := range c.Domains {
		if d == ".*" || strings.EqualFold(d, origin) {
			return true
		}
	}
	return p != nil && p(origin)
}

// corsOrigins: every origin is a near miss of an entry (mutation operators), plus specials.
func corsOrigins() []string {
	set := map[string]bool{}
	for _, e := range []string{corsE1, corsE2, corsE3, corsE4} {
		// one byte replaced by its 0x20 twin (the same byte for digits, the other case for letters,
		// a different character for @ [ \ ] ^ _ and their twins)
		for i := 0; i < len(e); i++ {
			b := []byte(e)
			b[i] ^= 0x20
			if b[i] > 0x20 && b[i] < 0x7f {
				set[string(b)] = true
			}
		}
		set[e] = true
		set[strings.ToUpper(e)] = true
		set[strings.ToUpper(e[:6])+e[6:]] = true
		set[e[:len(e)-1]] = true
		set[e[1:]] = true
		set[e+".evil.com"] = true
		set["evil-"+e] = true
		set[strings.Replace(e, ".", "x", 1)] = true
		if strings.HasPrefix(e, "http://") {
			set["https://"+e[7:]] = true
		} else {
			set["http://"+e[8:]] = true
		}
		set[e+"/"] = true
		set[e+":8443"] = true
		set[e+"x"] = true
	}
	for _, s := range []string{"null", ".*", "http://.*", "", "http://other.test", "http://a.example.comhttps://b.org:8443"} {
		set[s] = true
	}
	out := make([]string, 0, len(set))
	for s := range set {
		out = append(out, s)
	}
	sort.Strings(out)
	return out
}

type corsWorld struct {
	c      *restful.Container
	log    *[]string
	ws     *restful.WebService
	api    *restful.WebService
	hasPut bool
	hasAPI bool
	hnd    func(id string) restful.RouteFunction
}

// mutate applies a route mutation to the (dynamic) service: "unroute-put" / "route-put" on /u1.
func (w *corsWorld) mutate(op string) {
	switch op {
	case "unroute-put":
		w.ws.RemoveRoute("/u1", "PUT")
		w.hasPut = false
	case "route-put":
		if !w.hasPut {
			w.ws.Route(w.ws.PUT("/u1").To(w.hnd("PUT u1")))
			w.hasPut = true
		}
	case "remove-api":
		if w.hasAPI {
			w.c.Remove(w.api)
			w.hasAPI = false
		}
	case "add-api":
		if !w.hasAPI {
			w.c.Add(w.api)
			w.hasAPI = true
		}
	}
}

// corsBuild builds the container; withFilter=false gives the filter-less twin.
func corsBuild(cfg corsCfg, withFilter bool) corsWorld {
	c := restful.NewContainer()
	if cfg.JSR {
		c.Router(restful.RouterJSR311{})
	}
	var log []string
	w := corsWorld{c: c, log: &log, hasPut: true, hasAPI: true}
	cors := restful.CrossOriginResourceSharing{AllowedDomains: cfg.Domains, AllowedDomainFunc: cfg.predicate(), CookiesAllowed: cfg.Cookies,
		ExposeHeaders: cfg.Expose, MaxAge: cfg.MaxAge, AllowedMethods: cfg.Methods, AllowedHeaders: cfg.Headers, Container: c}
	after := func(name string) restful.FilterFunction {
		return func(req *restful.Request, resp *restful.Response, chain *restful.FilterChain) {
			log = append(log, name)
			chain.ProcessFilter(req, resp)
		}
	}
	ws := new(restful.WebService).Path("/")
	ws.SetDynamicRoutes(true)
	w.ws = ws
	if withFilter {
		if cfg.Service {
			ws.Filter(cors.Filter)
		} else {
			c.Filter(cors.Filter)
		}
	}
	if !cfg.Service {
		c.Filter(after("container-after"))
	}
	ws.Filter(after("service"))
	hnd := func(id string) restful.RouteFunction {
		return func(req *restful.Request, resp *restful.Response) {
			log = append(log, "handler:"+id)
			resp.Header().Set("X-Route", id)
			io.WriteString(resp, id)
		}
	}
	w.hnd = hnd
	// a second service registered first; its last route and the first route of the root service
	// have the same relative path
	api := new(restful.WebService).Path("/api") // not dynamic: its Routes() is the route table itself
	api.Route(api.PUT("/basket").To(hnd("PUT api/basket")))
	api.Route(api.DELETE("/basket").To(hnd("DELETE api/basket")))
	api.Route(api.GET("/reports").To(hnd("GET api/reports")))
	c.Add(api)
	w.api = api
	ws.Route(ws.DELETE("/reports").To(hnd("DELETE reports")))
	ws.Route(ws.GET("/u1").To(hnd("GET u1")))
	ws.Route(ws.PUT("/u1").To(hnd("PUT u1")))
	ws.Route(ws.POST("/u1").To(hnd("POST u1")))
	ws.Route(ws.Method("OPTIONS").Path("/u1").To(hnd("OPTIONS u1")))
	ws.Route(ws.DELETE("/u2").To(hnd("DELETE u2")))
	ws.Route(ws.GET("/d/{id:(x)|[0-9]+}").To(hnd("GET d")))
	ws.Route(ws.POST("/d/{id:(x)|[0-9]+}/c").To(hnd("POST d/c")))
	ws.Route(ws.PUT("/caf\u00e9").To(hnd("PUT cafe"))) // reaches the server percent-encoded
	// two routes declared with one RouteBuilder: the second by setting method, path and function anew
	rb := ws.GET("/rb1").To(hnd("GET rb1"))
	ws.Route(rb)
	ws.Route(rb.Method("PUT").Path("/rb2").To(hnd("PUT rb2")))
	c.Add(ws)
	return w
}

type corsResp struct {
	Code int         `json:"code"`
	Hdr  http.Header `json:"headers"`
	Body string      `json:"body"`
	Log  []string    `json:"events"`
}

func (w corsWorld) do(q h.Req) corsResp {
	*w.log = (*w.log)[:0]
	rec := h.NewRec()
	w.c.Dispatch(rec, q.HTTP())
	return corsResp{rec.Code, rec.Result().Clone(), rec.Buf.String(), append([]string{}, *w.log...)}
}

func (r corsResp) key() string {
	keys := make([]string, 0, len(r.Hdr))
	for k := range r.Hdr {
		keys = append(keys, k)
	}
	sort.Strings(keys)
	var sb strings.Builder
	fmt.Fprintf(&sb, "%d %q %v", r.Code, r.Body, r.Log)
	for _, k := range keys {
		fmt.Fprintf(&sb, " %s=%q", k, r.Hdr[k])
	}
	return sb.String()
}

func (r corsResp) acHeaders() []string {
	var out []string
	for k := range r.Hdr {
		if strings.HasPrefix(k, "Access-Control-") {
			out = append(out, k)
		}
	}
	sort.Strings(out)
	return out
}

type corsCase struct {
	Cfg  corsCfg  `json:"cfg"`
	Req  h.Req    `json:"req"`
	Got  corsResp `json:"got"`
	Twin corsResp `json:"twin"`
}

func isPreflight(q h.Req) bool {
	return q.Method == "OPTIONS" && q.Header("Access-Control-Request-Method") != ""
}

// judgeC08 evaluates the statement on one request.
func judgeC08(cfg corsCfg, q h.Req, got, twin corsResp) string {
	origin := q.Header("Origin")
	ok := cfg.allowed(origin)
	ac := got.acHeaders()
	if len(ac) > 0 && !ok {
		return fmt.Sprintf("origin %q is not allowed but the response carries %v", origin, ac)
	}
	if !ok {
		if got.key() != twin.key() {
			return fmt.Sprintf("origin %q is absent/not allowed but the response differs from the filter-less twin: %s  vs  %s", origin, got.key(), twin.key())
		}
		return ""
	}
	acao := got.Hdr["Access-Control-Allow-Origin"]
	if len(acao) > 0 && (len(acao) != 1 || acao[0] != origin) {
		return fmt.Sprintf("Access-Control-Allow-Origin is %q, expected exactly the request's Origin %q once", acao, origin)
	}
	if cred := got.Hdr["Access-Control-Allow-Credentials"]; len(cred) > 0 && (!cfg.Cookies || len(cred) != 1) {
		return fmt.Sprintf("Access-Control-Allow-Credentials %q although cookies configured=%v", cred, cfg.Cookies)
	}
	if !isPreflight(q) {
		// apart from the CORS headers the request is processed as without the filter
		stripped := corsResp{got.Code, got.Hdr.Clone(), got.Body, got.Log}
		for _, k := range ac {
			delete(stripped.Hdr, k)
		}
		if stripped.key() != twin.key() {
			return fmt.Sprintf("actual request from an allowed origin: apart from Access-Control-* the response differs from the twin: %s  vs  %s", stripped.key(), twin.key())
		}
	}
	return ""
}

func replayC08(detail json.RawMessage) error {
	var c corsCase
	if err := json.Unmarshal(detail, &c); err != nil {
		return err
	}
	rs.Quiet(false)
	var pc corsPairCase
	if json.Unmarshal(detail, &pc) == nil && pc.First.Pred != "" {
		fmt.Printf("first a filter %+v serves %v\n", pc.First, pc.Req)
		corsBuild(pc.First, true).do(pc.Req)
	}
	got, twin := corsBuild(c.Cfg, true).do(c.Req), corsBuild(c.Cfg, false).do(c.Req)
	fmt.Printf("cfg: %+v\nrequest: %v\nwith filter: %s\ntwin:        %s\n", c.Cfg, c.Req, got.key(), twin.key())
	if why := judgeC08(c.Cfg, c.Req, got, twin); why != "" {
		return fmt.Errorf("%s", why)
	}
	return nil
}

func corsCfgs(tier string) []corsCfg {
	var out []corsCfg
	// (blank and space-padded entries - what splitting a comma-separated setting leaves behind - are
	// entries like any other: a non-empty list is a restriction, and nothing equals a padded entry)
	for _, d := range [][]string{nil, {corsE1}, {corsE1, corsE2}, {".*"}, {corsE1, ".*"}, {corsE4, corsE1}, {""}, {" ", ""}, {" " + corsE1 + " "}} {
		for _, p := range []string{"", "e3", "none"} {
			for _, ck := range []bool{false, true} {
				for _, ex := range [][]string{nil, {"X-A"}} {
					for _, ma := range []int{0, 10} {
						for _, svc := range []bool{false, true} {
							for _, jsr := range []bool{false, true} {
								if tier != "thorough" && (svc || jsr) && (ck || ex != nil || ma != 0) {
									continue // quick: second position / router only with the plain option set
								}
								out = append(out, corsCfg{Domains: d, Pred: p, Cookies: ck, Expose: ex, MaxAge: ma, Service: svc, JSR: jsr})
							}
						}
					}
				}
			}
		}
	}
	return out
}

func corsRequests(origins []string) []h.Req {
	var out []h.Req
	type mr struct {
		m    string
		segs []string
		acrm string
	}
	for _, r := range []mr{{"GET", []string{"u1"}, ""}, {"POST", []string{"u1"}, ""}, {"OPTIONS", []string{"u1"}, ""}, {"OPTIONS", []string{"u1"}, "PUT"},
		{"OPTIONS", []string{"u2"}, "GET"}, {"GET", []string{"nope"}, ""}, {"OPTIONS", []string{"nope"}, "GET"}, {"DELETE", []string{"u1"}, ""}} {
		for _, o := range origins {
			q := h.Req{Method: r.m, Segs: r.segs}
			if o != "" {
				q.Hdr = append(q.Hdr, [2]string{"Origin", o})
			}
			if r.acrm != "" {
				q.Hdr = append(q.Hdr, [2]string{"Access-Control-Request-Method", r.acrm})
			}
			out = append(out, q)
		}
	}
	return out
}

// corsPairCase: one filter accepted the origin (through its predicate) before another filter -
// whose predicate refuses it - sees the same origin.
type corsPairCase struct {
	First corsCfg  `json:"first_filter"`
	Cfg   corsCfg  `json:"cfg"`
	Req   h.Req    `json:"req"`
	Got   corsResp `json:"got"`
}

func checkC08(run *h.Run) {
	rs.Quiet(false)
	// before anything else has been served in this process: a filter that accepts an origin by
	// predicate, then a second filter (another container) that must refuse the same origin
	var pairCases int64
	for _, jsr := range []bool{false, true} {
		for _, m := range []string{"GET", "OPTIONS"} {
			accepting := corsCfg{Pred: "e3", Cookies: true, Expose: []string{"X-E"}, JSR: jsr}
			for _, refusing := range []corsCfg{{Pred: "none", Cookies: true, Expose: []string{"X-E"}, JSR: jsr}, {Domains: []string{corsE1}, Pred: "none", JSR: jsr}} {
				q := h.Req{Method: m, Segs: []string{"u1"}, Hdr: [][2]string{{"Origin", corsE3}}}
				corsBuild(accepting, true).do(q)
				got, twin := corsBuild(refusing, true).do(q), corsBuild(refusing, false).do(q)
				pairCases++
				if why := judgeC08(refusing, q, got, twin); why != "" {
					run.Violate("cors-after-another-filter", "", fmt.Sprintf("after a filter with predicate %q granted %s: %+v ; %v : %s", accepting.Pred, corsE3, refusing, q, why), corsPairCase{accepting, refusing, q, got}, nil)
				}
			}
		}
	}
	run.Cov["second_filter_cases"] = pairCases
	cfgs := corsCfgs(run.Tier)
	reqs := corsRequests(corsOrigins())
	var cases, granted, nontriv int64
	outcomes := h.NewDistinctSet(100000)
	type res struct{ cases, granted, nontriv int64 }
	results := make([]res, len(cfgs))
	h.Parallel(len(cfgs), func(_, i int) {
		cfg := cfgs[i]
		w, t := corsBuild(cfg, true), corsBuild(cfg, false)
		for _, q := range reqs {
			w = corsBuild(cfg, true) // a fresh filter per request (history effects: C09/C19)
			got, twin := w.do(q), t.do(q)
			results[i].cases++
			if len(got.acHeaders()) > 0 {
				results[i].granted++
			}
			if q.Header("Origin") != "" {
				results[i].nontriv++
			}
			outcomes.Add(fmt.Sprintf("%d %v %v", got.Code, got.acHeaders(), cfg.allowed(q.Header("Origin"))))
			if why := judgeC08(cfg, q, got, twin); why != "" {
				q := q
				run.Violate("cors", "", fmt.Sprintf("%+v ; %v : %s", cfg, q, why), corsCase{cfg, q, got, twin}, func() bool {
					return judgeC08(cfg, q, corsBuild(cfg, true).do(q), corsBuild(cfg, false).do(q)) != ""
				})
			} else if results[i].cases%1777 == 0 {
				run.Sample(map[string]any{"cfg": cfg, "request": q.String(), "access_control_headers": got.acHeaders()})
			}
		}
	})
	for _, r := range results {
		cases += r.cases
		granted += r.granted
		nontriv += r.nontriv
	}
	run.Cov["states"] = cases
	run.Cov["transitions"] = cases * 2
	run.Cov["traces_validated_against_impl"] = cases * 2
	run.Cov["evaluations"] = cases * 2
	run.Cov["distinct_nontrivial"] = nontriv
	run.Cov["responses_with_a_cors_grant"] = granted
	run.Cov["configurations"] = len(cfgs)
	run.Cov["origins"] = len(corsOrigins())
	run.Cov["distinct_outcomes"] = outcomes.Len()
	run.Cov["exhaustive"] = true
	run.Cov["rule"] = "E1: full product of filter configurations (allowed-domain lists x predicate x cookies x expose x max-age x filter position x router) x requests (GET/POST/OPTIONS/preflight/404/405 x origins derived from the entries by mutation operators: case variants, prefix/suffix/superstring near misses, regex-dot near miss, scheme swap, null, wildcard literals, absent); each request also goes to a filter-less twin; first of all, a filter whose predicate refuses an origin is used right after another filter accepted that origin by predicate. Non-trivial: the request carries an Origin."
	run.Assume = []string{"allowed(origin) is the statement's rule transcribed", "preflight grant conditions are C09's; here only soundness of any grant and twin equality"}
}
