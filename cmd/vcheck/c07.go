package main

import (
	"bytes"
	"compress/gzip"
	"compress/zlib"
	"encoding/json"
	"fmt"
	"io"
	"net/http"
	"strings"

	restful "github.com/emicklei/go-restful/v3"

	"verif/harness/h"
	"verif/harness/rs"
)

func init() { register("C07", checkC07, replayC07) }

type c07Case struct {
	Entry    string `json:"entry"` // ServeHTTP, Dispatch, Handle/mux, Handle/ServeHTTP, HandleWithFilter/mux, HandleWithFilter/ServeHTTP
	Switch   bool   `json:"container_switch"`
	Override string `json:"route_override"`  // unset, true, false
	AE       string `json:"accept_encoding"` // "-" = absent
	PreCE    string `json:"writer_content_encoding"`
	Nested   bool   `json:"writer_already_compressing"`
	Payload  string `json:"payload"`  // empty, one, hello, big, zeros
	Chunking string `json:"chunking"` // one, bytes, three, split
	Kind     string `json:"kind"`     // writes, entity, 404, 405, panic-pre, panic-mid, panic-custom
	Provider string `json:"provider"`
	Late     bool   `json:"switch_set_after_registration,omitempty"` // the container holds the opposite setting while services and handlers are registered
}

func (c c07Case) String() string {
	return fmt.Sprintf("entry=%s switch=%v override=%s AE=%q preCE=%q nested=%v payload=%s/%s kind=%s provider=%s late=%v", c.Entry, c.Switch, c.Override, c.AE, c.PreCE, c.Nested, c.Payload, c.Chunking, c.Kind, c.Provider, c.Late)
}

func c07Payload(kind string) []byte {
	switch kind {
	case "empty":
		return nil
	case "one":
		return []byte("x")
	case "big": // 70 kB deterministic pattern, larger than every internal buffer
		var b bytes.Buffer
		for i := 0; b.Len() < 70000; i++ {
			fmt.Fprintf(&b, "%d:%x|", i, i*2654435761)
		}
		return b.Bytes()
	case "zeros":
		return make([]byte, 1024)
	}
	return []byte("Hello World")
}

func writeChunks(w io.Writer, p []byte, chunking string) {
	switch chunking {
	case "bytes":
		for i := range p {
			w.Write(p[i : i+1])
		}
	case "three":
		a, b := len(p)/3, 2*len(p)/3
		w.Write(p[:a])
		w.Write(p[a:b])
		w.Write(p[b:])
	default:
		w.Write(p)
	}
}

type c07Ent struct {
	A string
}

func c07Routed(cs c07Case) bool { return cs.Entry == "ServeHTTP" || cs.Entry == "Dispatch" }

// c07Run executes a case (plain=true: the identity twin: no Accept-Encoding, so never encoded)
// and returns the recorder, the ledger and an escaped panic.
func c07Run(cs c07Case, plain bool) (*h.Rec, *ledger, interface{}) {
	led := newLedger(newProvider(cs.Provider))
	restful.SetCompressorProvider(led)
	c := restful.NewContainer()
	c.EnableContentEncoding(cs.Switch != cs.Late)
	payload := c07Payload(cs.Payload)
	if strings.HasPrefix(cs.Kind, "panic") {
		c.DoNotRecover(false)
		if cs.Kind == "panic-custom" {
			c.RecoverHandler(func(p interface{}, w http.ResponseWriter) {
				w.WriteHeader(500)
				io.WriteString(w, fmt.Sprintf("custom:%v", p))
			})
		}
	}
	if cs.Chunking == "split" {
		c.Filter(func(req *restful.Request, resp *restful.Response, chain *restful.FilterChain) {
			io.WriteString(resp, "pre-")
			chain.ProcessFilter(req, resp)
			io.WriteString(resp, "-post")
		})
	}
	ws := new(restful.WebService).Path("/w").Produces(restful.MIME_JSON)
	rb := ws.GET("/r").To(func(req *restful.Request, resp *restful.Response) {
		switch cs.Kind {
		case "entity":
			resp.WriteEntity(c07Ent{string(payload)})
		case "panic-pre":
			panic("boom")
		case "panic-mid", "panic-custom":
			writeChunks(resp, payload, cs.Chunking)
			panic("boom")
		default:
			writeChunks(resp, payload, cs.Chunking)
		}
	})
	switch cs.Override {
	case "true":
		rb.ContentEncodingEnabled(true)
	case "false":
		rb.ContentEncodingEnabled(false)
	}
	ws.Route(rb)
	// the same builder is used again for a sibling route with the opposite setting (builders are
	// reusable: each Route gets its own copy of the switch)
	switch cs.Override {
	case "true":
		ws.Route(rb.Path("/r2").ContentEncodingEnabled(false))
	case "false":
		ws.Route(rb.Path("/r2").ContentEncodingEnabled(true))
	}
	c.Add(ws)
	plainH := http.HandlerFunc(func(w http.ResponseWriter, r *http.Request) { writeChunks(w, payload, cs.Chunking) })
	if strings.HasPrefix(cs.Entry, "HandleWithFilter") {
		c.HandleWithFilter("/plain/", plainH)
	} else if strings.HasPrefix(cs.Entry, "Handle") {
		c.Handle("/plain/", plainH)
	}
	if cs.Late {
		c.EnableContentEncoding(cs.Switch)
	}
	q := h.Req{Method: "GET", Segs: []string{"w", "r"}}
	switch {
	case !c07Routed(cs):
		q.Segs = []string{"plain", "x"}
	case cs.Kind == "404":
		q.Segs = []string{"w", "nope"}
	case cs.Kind == "405":
		q.Method = "POST"
	}
	if cs.AE != "-" && !plain {
		q.Hdr = append(q.Hdr, [2]string{"Accept-Encoding", cs.AE})
	}
	rec := h.NewRec()
	var hw http.ResponseWriter = rec
	if cs.PreCE != "" && !plain {
		rec.Header().Set("Content-Encoding", cs.PreCE)
	}
	var outer *restful.CompressingResponseWriter
	if cs.Nested && !plain {
		outer, _ = restful.NewCompressingResponseWriter(rec, "gzip")
		hw = outer
	}
	var escaped interface{}
	func() {
		defer func() { escaped = recover() }()
		switch cs.Entry {
		case "Dispatch":
			c.Dispatch(hw, q.HTTP())
		case "Handle/mux", "HandleWithFilter/mux":
			c.ServeMux.ServeHTTP(hw, q.HTTP())
		default:
			c.ServeHTTP(hw, q.HTTP())
		}
	}()
	if outer != nil {
		outer.Close() // an error (already closed by the container's deferred Close) is fine
	}
	return rec, led, escaped
}

// decodeStrict decodes with the stdlib decoder to clean EOF and rejects trailing bytes.
func decodeStrict(enc string, raw []byte) ([]byte, error) {
	br := bytes.NewReader(raw)
	var out []byte
	var err error
	switch enc {
	case "gzip":
		var zr *gzip.Reader
		if zr, err = gzip.NewReader(br); err != nil {
			return nil, fmt.Errorf("gzip header: %v", err)
		}
		zr.Multistream(false)
		out, err = io.ReadAll(zr)
	case "deflate":
		var zr io.ReadCloser
		if zr, err = zlib.NewReader(br); err != nil {
			return nil, fmt.Errorf("zlib header: %v", err)
		}
		out, err = io.ReadAll(zr)
	default:
		return nil, fmt.Errorf("unknown coding %q", enc)
	}
	if err != nil {
		return out, fmt.Errorf("%s stream: %v", enc, err)
	}
	if br.Len() != 0 {
		return out, fmt.Errorf("%d trailing bytes after the %s stream", br.Len(), enc)
	}
	return out, nil
}

func firstLine(b []byte) string {
	s := string(b)
	if i := strings.IndexAny(s, "\r\n"); i >= 0 {
		return s[:i]
	}
	return s
}

// judgeC07 returns (reason, finding).
func judgeC07(cs c07Case) (string, string) {
	rec, led, escaped := c07Run(cs, false)
	twin, _, _ := c07Run(cs, true)
	if escaped != nil {
		return fmt.Sprintf("panic escaped: %v", escaped), ""
	}
	plain := twin.Buf.Bytes()
	ce := rec.Result().Get("Content-Encoding")
	if vs := rec.Result().Values("Content-Encoding"); len(vs) > 1 && !cs.Nested {
		return fmt.Sprintf("the response carries %d Content-Encoding values %q", len(vs), vs), ""
	}
	raw := rec.Buf.Bytes()
	same := func(got []byte) bool {
		if cs.Kind == "panic-pre" || cs.Kind == "panic-mid" {
			// default recover handler: its page ends in a stack trace whose frames differ between the
			// two call paths; the handler's own output and the first line of the page (no payload
			// contains a line break) must agree - whatever the page's wording is
			return firstLine(plain) == firstLine(got) && len(got) > 0
		}
		return bytes.Equal(got, plain)
	}
	for _, m := range led.report(true) {
		return "ledger: " + m, ""
	}
	if cs.Nested {
		// the writer arrived already compressing: exactly one coding (ours) must be on the wire
		got, err := decodeStrict("gzip", raw)
		if err != nil {
			return fmt.Sprintf("writer arrived already compressing: the body does not decode once: %v", err), ""
		}
		if !same(got) {
			return fmt.Sprintf("writer arrived already compressing: decoding once gives %d bytes %q..., the bytes written are %d bytes %q... (encoded twice?)", len(got), clip(got), len(plain), clip(plain)), ""
		}
		return "", ""
	}
	if cs.PreCE != "" {
		if ce != cs.PreCE {
			return fmt.Sprintf("writer arrived with Content-Encoding %q, response has %q", cs.PreCE, ce), ""
		}
		if !same(raw) {
			return fmt.Sprintf("writer arrived with Content-Encoding %q but the body is not the bytes written (%d vs %d bytes)", cs.PreCE, len(raw), len(plain)), ""
		}
		return "", ""
	}
	if ce == "" {
		if !same(raw) {
			return fmt.Sprintf("not encoded but the body (%d bytes %q...) is not the bytes written (%d bytes %q...)", len(raw), clip(raw), len(plain), clip(plain)), ""
		}
		return "", ""
	}
	if ce != "gzip" && ce != "deflate" {
		return fmt.Sprintf("container added Content-Encoding %q", ce), ""
	}
	if cs.AE == "-" || !strings.Contains(cs.AE, ce) {
		return fmt.Sprintf("encoded with %s although Accept-Encoding is %q", ce, cs.AE), ""
	}
	got, err := decodeStrict(ce, raw)
	if err != nil {
		return fmt.Sprintf("labelled %s but does not decode: %v", ce, err), ""
	}
	if !same(got) {
		return fmt.Sprintf("decoded body (%d bytes %q...) is not the bytes written (%d bytes %q...)", len(got), clip(got), len(plain), clip(plain)), ""
	}
	// encoding enabled for that request? the route's own setting overrides the container's
	enabled := cs.Switch
	if c07Routed(cs) && cs.Kind != "404" && cs.Kind != "405" && cs.Override != "unset" {
		enabled = cs.Override == "true"
	}
	if !enabled {
		f := ""
		if cs.Entry == "ServeHTTP" && cs.Switch && cs.Override == "false" {
			f = "F9"
		}
		return fmt.Sprintf("encoded with %s although encoding is not enabled for this request (container switch %v, route override %s)", ce, cs.Switch, cs.Override), f
	}
	return "", ""
}

func clip(b []byte) string {
	if len(b) > 40 {
		return string(b[:40])
	}
	return string(b)
}

func replayC07(detail json.RawMessage) error {
	var cs c07Case
	if err := json.Unmarshal(detail, &cs); err != nil {
		return err
	}
	rs.Quiet(false)
	if why, f := judgeC07(cs); why != "" {
		if f != "" {
			fmt.Println("(matches recorded finding " + f + ")")
		}
		return fmt.Errorf("%s", why)
	}
	return nil
}

var c07Entries = []string{"ServeHTTP", "Dispatch", "Handle/mux", "Handle/ServeHTTP", "HandleWithFilter/mux", "HandleWithFilter/ServeHTTP"}
var c07AEs = []string{"-", "gzip", "deflate", "gzip, deflate", "deflate, gzip", "identity", "br", "GZIP", "gzip;q=0"}

func c07Cases(tier string) []c07Case {
	var out []c07Case
	kindsFor := func(entry string) []string {
		if entry == "ServeHTTP" || entry == "Dispatch" {
			return []string{"writes", "entity", "404", "405", "panic-pre", "panic-mid", "panic-custom"}
		}
		return []string{"writes"}
	}
	overridesFor := func(entry string) []string {
		if entry == "ServeHTTP" || entry == "Dispatch" {
			return []string{"unset", "true", "false"}
		}
		return []string{"unset"}
	}
	providers := []string{"syncpool", "bounded0", "bounded1"}
	// (A) "Hello World" in one write x the full product of everything else
	for _, e := range c07Entries {
		for _, sw := range []bool{false, true} {
			for _, ov := range overridesFor(e) {
				for _, ae := range c07AEs {
					for _, pre := range []string{"", "gzip", "br"} {
						for _, nested := range []bool{false, true} {
							for _, k := range kindsFor(e) {
								for _, pr := range providers {
									if tier != "thorough" && pr != "bounded1" && (pre != "" || nested) {
										continue
									}
									if pre != "" && nested {
										continue
									}
									out = append(out, c07Case{e, sw, ov, ae, pre, nested, "hello", "one", k, pr, false})
								}
							}
						}
					}
				}
			}
		}
	}
	// (B) every payload x chunking on every entry point, switch, override, provider
	aes := []string{"gzip", "deflate"}
	if tier == "thorough" {
		aes = []string{"gzip", "deflate", "deflate, gzip", "-"}
	}
	for _, e := range c07Entries {
		for _, sw := range []bool{false, true} {
			for _, ov := range overridesFor(e) {
				for _, ae := range aes {
					for _, pl := range []string{"empty", "one", "hello", "big", "zeros"} {
						for _, ch := range []string{"one", "bytes", "three", "split"} {
							if ch == "bytes" && (pl == "big" || pl == "zeros") {
								continue
							}
							if ch == "split" && strings.HasPrefix(e, "Handle/") {
								continue // plain Handle runs no filters
							}
							for _, pr := range providers {
								for _, k := range []string{"writes", "panic-custom"} {
									if k != "writes" && !(e == "ServeHTTP" || e == "Dispatch") {
										continue
									}
									out = append(out, c07Case{e, sw, ov, ae, "", false, pl, ch, k, pr, false})
								}
							}
						}
					}
				}
			}
		}
	}
	// (C) configuration order: the container switch is set to its final value only after all
	// services and handlers have been registered (it holds the opposite value until then)
	for _, e := range c07Entries {
		for _, sw := range []bool{false, true} {
			for _, ov := range overridesFor(e) {
				for _, ae := range []string{"-", "gzip", "deflate", "identity"} {
					for _, k := range kindsFor(e) {
						for _, pr := range providers {
							out = append(out, c07Case{e, sw, ov, ae, "", false, "hello", "one", k, pr, true})
						}
					}
				}
			}
		}
	}
	return out
}

func checkC07(run *h.Run) {
	rs.Quiet(false)
	cases := c07Cases(run.Tier)
	// the compressor provider is package-wide state: cases run one after the other in this process
	// (sharding over processes is not needed: the whole product takes seconds)
	var encoded, nontriv int64
	outcomes := h.NewDistinctSet(10000)
	for i, cs := range cases {
		why, finding := judgeC07(cs)
		if cs.AE != "-" {
			nontriv++
		}
		if why != "" {
			cs := cs
			run.Violate("encoding", finding, fmt.Sprintf("%v : %s", cs, why), cs, func() bool { w, _ := judgeC07(cs); return w != "" })
		}
		outcomes.Add(fmt.Sprintf("%s/%v/%s/%s/%v", cs.Entry, cs.Switch, cs.Override, cs.Kind, why == ""))
		if i%1237 == 0 {
			rec, _, _ := c07Run(cs, false)
			if rec.Result().Get("Content-Encoding") != "" {
				encoded++
			}
			run.Sample(map[string]any{"case": cs.String(), "content_encoding": rec.Result().Get("Content-Encoding"), "raw_bytes": rec.Buf.Len()})
		}
	}
	restful.SetCompressorProvider(restful.NewSyncPoolCompessors())
	run.Cov["states"] = len(cases)
	run.Cov["transitions"] = len(cases) * 2
	run.Cov["traces_validated_against_impl"] = len(cases) * 2
	run.Cov["evaluations"] = len(cases) * 2
	run.Cov["distinct_nontrivial"] = nontriv
	run.Cov["distinct_outcomes"] = outcomes.Len()
	run.Cov["exhaustive"] = true
	run.Cov["rule"] = "E1 with a fault/outcome-kind dimension: (A) 'Hello World' in one write x the full product entry point {ServeHTTP, Dispatch, Handle and HandleWithFilter each through the mux and through ServeHTTP} x container switch x route override {unset,true,false} x 9 Accept-Encoding values x writer arriving with Content-Encoding {none,gzip,br} x writer arriving already compressing x outcome kind {handler writes, WriteEntity, 404, 405, recovered panic before output / after partial output, custom recover handler} x provider {sync.Pool, bounded(0), bounded(1)} (quick: the pre-encoded/nested dimensions on bounded(1) only); (B) payload {empty, 1 B, Hello World, 70 kB pattern, 1 kB zeros} x chunking {one write, byte-wise, three chunks, split across filter-before/handler/filter-after} on every entry point, switch, override and provider; (C) configuration order: the container switch receives its final value only after registration (opposite value until then) x entry point x switch x override x 4 Accept-Encoding values x outcome kind x provider. Each case runs on the real package next to an identity twin (no Accept-Encoding); every clause of the statement is evaluated, the ledger provider checks acquire/release. Non-trivial: an Accept-Encoding header is present."
	run.Assume = []string{"the bytes written are taken from the identity twin (differential); default recover handler output compared up to the first line (stack frames differ)", "compress/gzip and compress/zlib decoders trusted"}
}
