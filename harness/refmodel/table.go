package refmodel

import (
	"fmt"
	"strings"
)

// Cond is a generated route condition: a pure function of the request header X-C.
type Cond string

const (
	CondTrue  Cond = "true"
	CondFalse Cond = "false"
	CondHdr   Cond = "hdr" // X-C == "1"
)

func (c Cond) Eval(xc string) bool {
	switch c {
	case CondTrue:
		return true
	case CondHdr:
		return xc == "1"
	}
	return false
}

// RouteDecl declares one route of a table.
type RouteDecl struct {
	ID       int      `json:"id"`
	Method   string   `json:"method"`
	Sub      string   `json:"sub"`
	Consumes []string `json:"consumes,omitempty"`
	Produces []string `json:"produces,omitempty"`
	If       []Cond   `json:"if,omitempty"`
	NoCT     []string `json:"noct,omitempty"` // AllowedMethodsWithoutContentType
}

type SvcDecl struct {
	Root     string      `json:"root"`
	Routes   []RouteDecl `json:"routes"`
	Consumes []string    `json:"consumes,omitempty"` // WebService-level defaults: inherited by routes
	Produces []string    `json:"produces,omitempty"` // that declare no list of their own
}

// Effective returns a route declaration with the service-level defaults applied.
func (s SvcDecl) Effective(r RouteDecl) RouteDecl {
	if len(r.Consumes) == 0 {
		r.Consumes = s.Consumes
	}
	if len(r.Produces) == 0 {
		r.Produces = s.Produces
	}
	return r
}

// Table is a set of WebServices with their routes, in registration order.
type Table struct {
	Svcs []SvcDecl `json:"svcs"`
}

func (t Table) String() string {
	var sb strings.Builder
	for i, s := range t.Svcs {
		if i > 0 {
			sb.WriteString(" | ")
		}
		fmt.Fprintf(&sb, "ws %q:", s.Root)
		if len(s.Consumes) > 0 || len(s.Produces) > 0 {
			fmt.Fprintf(&sb, " (defaults C%v P%v)", s.Consumes, s.Produces)
		}
		for _, r := range s.Routes {
			fmt.Fprintf(&sb, " #%d %s %q", r.ID, r.Method, r.Sub)
			if len(r.Consumes) > 0 {
				fmt.Fprintf(&sb, " C%v", r.Consumes)
			}
			if len(r.Produces) > 0 {
				fmt.Fprintf(&sb, " P%v", r.Produces)
			}
			if len(r.If) > 0 {
				fmt.Fprintf(&sb, " If%v", r.If)
			}
			if len(r.NoCT) > 0 {
				fmt.Fprintf(&sb, " NoCT%v", r.NoCT)
			}
		}
	}
	return sb.String()
}

// Request is the abstract request as the model sees it.
type Request struct {
	Method  string
	Path    string // decoded path as handed to the router
	CT      string // Content-Type header ("" = absent)
	Accept  string // Accept header ("" = absent)
	HasBody bool   // a sized body is sent (Content-Length > 0)
	XC      string // condition header
}

// mediaOf: the media type is the text before ';', trimmed of spaces.
func mediaOf(s string) string {
	if i := strings.Index(s, ";"); i >= 0 {
		s = s[:i]
	}
	return strings.Trim(s, " ")
}

// ConsumesAdmits: empty list admits everything; an absent Content-Type is admitted for
// GET/HEAD/OPTIONS/DELETE/TRACE (or the route's own list) and otherwise treated as
// application/octet-stream; media type compared whole to each entry, "*/*" admits all.
func ConsumesAdmits(r RouteDecl, ct string) bool {
	if len(r.Consumes) == 0 {
		return true
	}
	if ct == "" {
		if len(r.NoCT) > 0 {
			for _, m := range r.NoCT {
				if m == r.Method {
					return true
				}
			}
		} else {
			switch r.Method {
			case "GET", "HEAD", "OPTIONS", "DELETE", "TRACE":
				return true
			}
		}
		ct = "application/octet-stream"
	}
	for _, part := range strings.Split(ct, ",") {
		m := mediaOf(part)
		for _, c := range r.Consumes {
			if c == "*/*" || c == m {
				return true
			}
		}
	}
	return false
}

// ProducesSatisfies: absent Accept = */*; some media range is */* or equals an entry, or an
// entry is */*.
func ProducesSatisfies(r RouteDecl, accept string) bool {
	if accept == "" {
		accept = "*/*"
	}
	for _, part := range strings.Split(accept, ",") {
		m := mediaOf(part)
		if m == "*/*" {
			return true
		}
		for _, p := range r.Produces {
			if p == "*/*" || p == m {
				return true
			}
		}
	}
	return false
}

// Exp is one acceptable outcome.
type Exp struct {
	Root     int      // index of the service assumed to have claimed the URL (-1: none)
	Status   int      // 200 = a route function runs; else the error status
	Allow    []string // sorted set, for 405
	Eligible []int    // route ids of A (any may run for C02)
	Best     []int    // members of A that are not less specific than another member (C03)
	PathSet  []int    // route ids whose template matches the path (P)
}

// Analysis of a (table, request) pair.
type Analysis struct {
	Claiming   []int // services whose root claims the URL
	Maximal    []int // maximal claiming roots (acceptable choices)
	Exps       []Exp // one per maximal root; a single 404 if none claims
	NonTrivial bool  // some route path-matches or nearly does
}

// Parsed caches the parsed form of a table.
type Parsed struct {
	T     Table
	Roots [][]Tok
	Full  [][][]Tok // per service, per route: tokens of the full template
}

func Parse(t Table) *Parsed {
	p := &Parsed{T: t}
	for _, s := range t.Svcs {
		p.Roots = append(p.Roots, ParseTemplate(s.Root))
		var fr [][]Tok
		for _, r := range s.Routes {
			fr = append(fr, ParseTemplate(Concat(s.Root, r.Sub)))
		}
		p.Full = append(p.Full, fr)
	}
	return p
}

// FullTemplate returns the full template string of a route.
func (p *Parsed) FullTemplate(si, ri int) string {
	return Concat(p.T.Svcs[si].Root, p.T.Svcs[si].Routes[ri].Sub)
}

func (p *Parsed) Analyse(q Request, r Router) Analysis {
	var a Analysis
	for i := range p.T.Svcs {
		if Claims(p.Roots[i], q.Path, r) {
			a.Claiming = append(a.Claiming, i)
		}
	}
	if len(a.Claiming) == 0 {
		a.Exps = []Exp{{Root: -1, Status: 404}}
	}
	anyVarRoot := false
	for _, i := range a.Claiming {
		for _, t := range p.Roots[i] {
			if t.Kind != Lit {
				anyVarRoot = true
			}
		}
	}
	for _, i := range a.Claiming {
		dominated := false
		// RouterJSR311 documents best-match among roots only for literal root paths: when a
		// variable root competes every claiming root is an acceptable choice.
		if !(r.Base() == JSR311 && anyVarRoot) {
			for _, j := range a.Claiming {
				if j != i && MoreSpecificRoot(p.Roots[j], p.Roots[i]) {
					dominated = true
					break
				}
			}
		}
		if !dominated {
			a.Maximal = append(a.Maximal, i)
		}
	}
	for _, si := range a.Maximal {
		a.Exps = append(a.Exps, p.expectIn(si, q, r))
	}
	for si := range p.T.Svcs {
		for ri := range p.T.Svcs[si].Routes {
			if NearMiss(p.Full[si][ri], q.Path, r) {
				a.NonTrivial = true
			}
		}
	}
	return a
}

func (p *Parsed) expectIn(si int, q Request, r Router) Exp {
	e := Exp{Root: si}
	svc := p.T.Svcs[si]
	var P, C, M, T, A []int
	for ri := range svc.Routes {
		if ok, _ := PathMatches(p.Full[si][ri], q.Path, r); ok {
			P = append(P, ri)
		}
	}
	for _, ri := range P {
		e.PathSet = append(e.PathSet, svc.Routes[ri].ID)
		ok := true
		for _, c := range svc.Routes[ri].If {
			if !c.Eval(q.XC) {
				ok = false
			}
		}
		if ok {
			C = append(C, ri)
		}
	}
	if len(C) == 0 {
		e.Status = 404
		return e
	}
	allow := map[string]bool{}
	for _, ri := range C {
		allow[svc.Routes[ri].Method] = true
		if svc.Routes[ri].Method == q.Method {
			M = append(M, ri)
		}
	}
	if len(M) == 0 {
		e.Status = 405
		for m := range allow {
			e.Allow = append(e.Allow, m)
		}
		sortStrings(e.Allow)
		return e
	}
	for _, ri := range M {
		if ConsumesAdmits(svc.Effective(svc.Routes[ri]), q.CT) {
			T = append(T, ri)
		}
	}
	if len(T) == 0 && q.HasBody {
		e.Status = 415
		return e
	}
	for _, ri := range T {
		if ProducesSatisfies(svc.Effective(svc.Routes[ri]), q.Accept) {
			A = append(A, ri)
		}
	}
	if len(A) > 0 {
		e.Status = 200
		for _, ri := range A {
			e.Eligible = append(e.Eligible, svc.Routes[ri].ID)
			less := false
			for _, rj := range A {
				if rj != ri && LessSpecificRoute(p.Full[si][ri], p.Full[si][rj]) {
					less = true
				}
			}
			if !less {
				e.Best = append(e.Best, svc.Routes[ri].ID)
			}
		}
		return e
	}
	if (q.Method == "POST" || q.Method == "PUT" || q.Method == "PATCH") && !q.HasBody {
		e.Status = 415
	} else {
		e.Status = 406
	}
	return e
}

func sortStrings(s []string) {
	for i := 1; i < len(s); i++ {
		for j := i; j > 0 && s[j] < s[j-1]; j-- {
			s[j], s[j-1] = s[j-1], s[j]
		}
	}
}

// RouteByID finds a route declaration.
func (p *Parsed) RouteByID(id int) (si, ri int, ok bool) {
	for si := range p.T.Svcs {
		for ri := range p.T.Svcs[si].Routes {
			if p.T.Svcs[si].Routes[ri].ID == id {
				return si, ri, true
			}
		}
	}
	return 0, 0, false
}
