// Package refmodel is the executable routing reference model of DESIGN.md §5. It is written
// from the property statements and the package documentation and deliberately boring: no
// scores, no sorting, no compilation of templates into one regular expression. It does not
// import the package under test.
package refmodel

import (
	"regexp"
	"strings"
	"sync"
)

type Router int

const (
	Curly Router = iota
	JSR311
	// Lenient readings of two points no property decides (used only to ACCEPT an outcome that the
	// base reading rejects, never to demand one): a plain CurlyRouter variable facing an empty
	// segment, and a tail wildcard facing zero remaining segments.
	curlyNoEmptyVar
	curlyTailZero
	curlyNoEmptyVarTailZero
	jsrTailZero
)

// Base is the router a (possibly lenient) reading belongs to.
func (r Router) Base() Router {
	if r == JSR311 || r == jsrTailZero {
		return JSR311
	}
	return Curly
}

// Readings lists the base reading followed by the lenient ones.
func (r Router) Readings() []Router {
	if r.Base() == JSR311 {
		return []Router{JSR311, jsrTailZero}
	}
	return []Router{Curly, curlyNoEmptyVar, curlyTailZero, curlyNoEmptyVarTailZero}
}

func (r Router) emptyVarRejected() bool {
	return r == curlyNoEmptyVar || r == curlyNoEmptyVarTailZero || r.Base() == JSR311
}

func (r Router) tailAdmitsZero() bool {
	return r == curlyTailZero || r == curlyNoEmptyVarTailZero || r == jsrTailZero
}

func (r Router) String() string {
	if r.Base() == Curly {
		return "curly"
	}
	return "jsr311"
}

type Kind int

const (
	Lit Kind = iota
	Var
	Re
	Suf
	Pre
	Tail
)

var kindNames = []string{"Lit", "Var", "Re", "Suf", "Pre", "Tail"}

func (k Kind) String() string { return kindNames[k] }

// Tok is one classified template token.
type Tok struct {
	Kind   Kind
	Name   string // variable name
	Text   string // literal text (Lit) or literal prefix (Pre)
	Suffix string // literal suffix (Suf, Pre)
	Expr   string // regular expression (Re)
	Verb   string // custom verb (without the colon), "" if none
	Src    string
}

var verbRe = regexp.MustCompile(`:([A-Za-z]+)$`)

// Concat is the documented default path strategy for joining root and route path.
func Concat(root, sub string) string {
	if root == "" {
		root = "/"
	}
	return strings.TrimRight(root, "/") + "/" + strings.TrimLeft(sub, "/")
}

// SplitTemplate splits a template into its token strings (leading/trailing slashes trimmed).
func SplitTemplate(tpl string) []string {
	t := strings.Trim(tpl, "/")
	if t == "" {
		return nil
	}
	return strings.Split(t, "/")
}

// ParseTemplate classifies the tokens of a full template. A token carries a custom verb only if
// the template as a whole ends in one and the token itself ends in `:letters`.
func ParseTemplate(tpl string) []Tok {
	parts := SplitTemplate(tpl)
	hasVerb := verbRe.MatchString(tpl)
	toks := make([]Tok, len(parts))
	for i, p := range parts {
		toks[i] = parseTok(p, hasVerb)
	}
	return toks
}

func parseTok(p string, tplHasVerb bool) Tok {
	t := Tok{Src: p}
	if tplHasVerb {
		if m := verbRe.FindStringSubmatch(p); m != nil {
			t.Verb = m[1]
			p = p[:len(p)-len(m[0])]
		}
	}
	open := strings.Index(p, "{")
	cl := strings.LastIndex(p, "}")
	if open < 0 || cl < open {
		t.Kind, t.Text = Lit, p
		return t
	}
	inner := p[open+1 : cl]
	if colon := strings.Index(inner, ":"); colon >= 0 && open == 0 && cl == len(p)-1 {
		t.Name = strings.TrimSpace(inner[:colon])
		e := strings.TrimSpace(inner[colon+1:])
		if e == "*" {
			t.Kind = Tail
		} else {
			t.Kind, t.Expr = Re, e
		}
		return t
	}
	t.Name = inner
	switch {
	case open == 0 && cl == len(p)-1:
		t.Kind = Var
	case open == 0:
		t.Kind, t.Suffix = Suf, p[cl+1:]
	default:
		t.Kind, t.Text, t.Suffix = Pre, p[:open], p[cl+1:]
	}
	return t
}

var reCache sync.Map

func compiled(expr string, anchored bool) *regexp.Regexp {
	key := expr
	if anchored {
		key = "^(?:" + expr + ")$"
	}
	if v, ok := reCache.Load(key); ok {
		return v.(*regexp.Regexp)
	}
	re, err := regexp.Compile(key)
	if err != nil {
		re = nil
	}
	reCache.Store(key, re)
	return re
}

// stripVerb checks and removes the custom verb of a verb-carrying token from the segment.
func stripVerb(t Tok, seg string) (string, bool) {
	if t.Verb == "" {
		return seg, true
	}
	if !strings.HasSuffix(seg, ":"+t.Verb) {
		return "", false
	}
	return seg[:len(seg)-len(t.Verb)-1], true
}

// Admits tells whether a route-level token admits the request segment, and the bound value.
func Admits(t Tok, seg string, r Router) (bool, string) {
	seg, ok := stripVerb(t, seg)
	if !ok {
		return false, ""
	}
	switch t.Kind {
	case Lit:
		return seg == t.Text, ""
	case Var:
		if r.emptyVarRejected() {
			return seg != "", seg
		}
		return true, seg
	case Re:
		re := compiled(t.Expr, r.Base() == JSR311)
		if re == nil {
			return false, ""
		}
		return re.MatchString(seg), seg
	case Suf:
		if !strings.HasSuffix(seg, t.Suffix) {
			return false, ""
		}
		return true, seg[:len(seg)-len(t.Suffix)]
	case Pre:
		if len(seg) < len(t.Text)+len(t.Suffix) || !strings.HasPrefix(seg, t.Text) || !strings.HasSuffix(seg, t.Suffix) {
			return false, ""
		}
		return true, seg[len(t.Text) : len(seg)-len(t.Suffix)]
	case Tail:
		return true, seg
	}
	return false, ""
}

// Segments returns the request segments as the router's documented path strategy sees them.
// CurlyRouter: trim slashes on both sides and split ("/" has no segments, the empty path has one
// empty segment). RouterJSR311: the raw path; tail tells whether a trailing empty segment is
// kept (templates ending in a tail wildcard) or one final empty segment is ignored.
func Segments(path string, r Router, tail bool) []string {
	if r.Base() == Curly {
		if path == "/" {
			return nil
		}
		return strings.Split(strings.Trim(path, "/"), "/")
	}
	if path == "" {
		return nil
	}
	segs := strings.Split(strings.TrimPrefix(path, "/"), "/")
	if !tail && len(segs) > 0 && segs[len(segs)-1] == "" {
		segs = segs[:len(segs)-1]
	}
	return segs
}

// PathMatches reports whether the full template admits the path and returns the bindings.
func PathMatches(toks []Tok, path string, r Router) (bool, map[string]string) {
	tail := len(toks) > 0 && toks[len(toks)-1].Kind == Tail
	segs := Segments(path, r, tail)
	if tail {
		if len(segs) == len(toks)-1 && r.tailAdmitsZero() {
			segs = append(append([]string{}, segs...), "")
		}
		if len(segs) < len(toks) {
			return false, nil
		}
	} else if len(segs) != len(toks) {
		return false, nil
	}
	b := map[string]string{}
	for i, t := range toks {
		if t.Kind == Tail {
			b[t.Name] = strings.Join(segs[i:], "/")
			break
		}
		ok, v := Admits(t, segs[i], r)
		if !ok {
			return false, nil
		}
		if t.Kind != Lit {
			b[t.Name] = v
		}
	}
	return true, b
}

// NearMiss: the template has the right shape for the path but at most one token rejects its
// segment, or the lengths differ by exactly one (used only to count non-trivial cases).
func NearMiss(toks []Tok, path string, r Router) bool {
	tail := len(toks) > 0 && toks[len(toks)-1].Kind == Tail
	segs := Segments(path, r, tail)
	d := len(segs) - len(toks)
	if d < -1 || (d > 1 && !tail) {
		return false
	}
	miss := 0
	if d != 0 && !(tail && d > 0) {
		miss++
	}
	for i, t := range toks {
		if i >= len(segs) || t.Kind == Tail {
			break
		}
		if ok, _ := Admits(t, segs[i], r); !ok {
			miss++
		}
	}
	return miss <= 1
}

// Substitute puts bound values back into the template (inverse of the bindings).
func Substitute(toks []Tok, b map[string]string) string {
	parts := make([]string, len(toks))
	for i, t := range toks {
		var s string
		switch t.Kind {
		case Lit:
			s = t.Text
		case Var, Re, Tail:
			s = b[t.Name]
		case Suf:
			s = b[t.Name] + t.Suffix
		case Pre:
			s = t.Text + b[t.Name] + t.Suffix
		}
		if t.Verb != "" {
			s += ":" + t.Verb
		}
		parts[i] = s
	}
	return "/" + strings.Join(parts, "/")
}

// Claims: does a WebService root (its tokens) claim the URL? Root variables need a non-empty
// segment under both routers; a regex root variable must be satisfied.
func Claims(root []Tok, path string, r Router) bool {
	segs := Segments(path, r, true)
	if r.Base() == Curly {
		segs = Segments(path, r, false)
	}
	if len(root) > len(segs) {
		return false
	}
	for i, t := range root {
		s := segs[i]
		switch t.Kind {
		case Lit:
			if s != t.Text {
				return false
			}
		case Tail:
			// a tail wildcard in a root path claims whatever follows
			if r.Base() == Curly && s == "" {
				return false
			}
			return true
		default:
			if s == "" {
				return false
			}
			if ok, _ := Admits(t, s, r); !ok {
				return false
			}
		}
	}
	return true
}

// MoreSpecificRoot: a strictly more specific than b (both claiming the same URL): at least as
// long, a literal wherever b has a literal, and longer or a literal where b has a variable.
func MoreSpecificRoot(a, b []Tok) bool {
	if len(a) < len(b) {
		return false
	}
	strict := len(a) > len(b)
	for i := range b {
		if b[i].Kind == Lit && a[i].Kind != Lit {
			return false
		}
		if a[i].Kind == Lit && b[i].Kind != Lit {
			strict = true
		}
	}
	return strict
}

// SameShapeRoot: same length and the same literal/variable shape (literals equal).
func SameShapeRoot(a, b []Tok) bool {
	if len(a) != len(b) {
		return false
	}
	for i := range a {
		if (a[i].Kind == Lit) != (b[i].Kind == Lit) {
			return false
		}
		if a[i].Kind == Lit && a[i].Text != b[i].Text {
			return false
		}
	}
	return true
}

// LessSpecificRoute: r is less specific than r2: same number of tokens, r2 has a literal
// wherever r has one (the same literal) and a literal somewhere r has a variable.
func LessSpecificRoute(r, r2 []Tok) bool {
	if len(r) != len(r2) {
		return false
	}
	strict := false
	for i := range r {
		rl := r[i].Kind == Lit
		r2l := r2[i].Kind == Lit
		if rl && (!r2l || r2[i].Text != r[i].Text || r2[i].Verb != r[i].Verb) {
			return false
		}
		if !rl && r2l {
			strict = true
		}
		if !rl && !r2l && (r[i].Kind == Tail) != (r2[i].Kind == Tail) {
			return false
		}
	}
	return strict
}

// DiffersOnlyInVarNames: same shape, and variable tokens are the same up to the variable name.
func DiffersOnlyInVarNames(a, b []Tok) bool {
	if len(a) != len(b) {
		return false
	}
	for i := range a {
		x, y := a[i], b[i]
		if x.Kind != y.Kind || x.Text != y.Text || x.Suffix != y.Suffix || x.Expr != y.Expr || x.Verb != y.Verb {
			return false
		}
	}
	return true
}
