// Package h is the shared harness library: request construction the way net/http's server
// does it, a light recording ResponseWriter, evidence and violation reporting.
package h

import (
	"bufio"
	"bytes"
	"fmt"
	"io"
	"net/http"
	"net/url"
	"sort"
	"strings"
)

// Req is an abstract request; HTTP() serialises it to HTTP/1.1 bytes and parses it with
// http.ReadRequest so ContentLength, the Content-Length header, URL.Path (percent-decoded) and
// header canonicalisation are what a real server would hand to ServeHTTP.
type Req struct {
	Method  string      `json:"method"`
	Segs    []string    `json:"segs,omitempty"`    // path segments (unescaped); path = "/" + join(escape(segs), "/")
	Slash   bool        `json:"slash,omitempty"`   // one extra trailing slash
	Lead    int         `json:"lead,omitempty"`    // extra leading slashes
	Empty   bool        `json:"empty,omitempty"`   // the empty path (URL.Path overwritten after parsing; Dispatch only)
	RawPath string      `json:"rawpath,omitempty"` // if set, used verbatim as request target instead of Segs
	Hdr     [][2]string `json:"hdr,omitempty"`
	Body    string      `json:"body,omitempty"`
}

// Path returns the decoded path the router will see.
func (r Req) Path() string {
	if r.Empty {
		return ""
	}
	if r.RawPath != "" {
		u, err := url.ParseRequestURI(r.RawPath)
		if err != nil {
			return r.RawPath
		}
		return u.Path
	}
	p := strings.Repeat("/", r.Lead) + "/" + strings.Join(r.Segs, "/")
	if r.Slash && len(r.Segs) > 0 {
		p += "/"
	}
	return p
}

func (r Req) target() string {
	if r.RawPath != "" {
		return r.RawPath
	}
	esc := make([]string, len(r.Segs))
	for i, s := range r.Segs {
		esc[i] = url.PathEscape(s)
	}
	p := strings.Repeat("/", r.Lead) + "/" + strings.Join(esc, "/")
	if r.Slash && len(r.Segs) > 0 {
		p += "/"
	}
	return p
}

func (r Req) Header(name string) string {
	for _, kv := range r.Hdr {
		if strings.EqualFold(kv[0], name) {
			return kv[1]
		}
	}
	return ""
}

func (r Req) String() string {
	var hs []string
	for _, kv := range r.Hdr {
		hs = append(hs, kv[0]+": "+kv[1])
	}
	b := ""
	if r.Body != "" {
		b = fmt.Sprintf(" body[%d]", len(r.Body))
	}
	return fmt.Sprintf("%s %q {%s}%s", r.Method, r.Path(), strings.Join(hs, "; "), b)
}

// HTTP builds a fresh *http.Request.
func (r Req) HTTP() *http.Request {
	var b bytes.Buffer
	fmt.Fprintf(&b, "%s %s HTTP/1.1\r\nHost: example.test\r\n", r.Method, r.target())
	for _, kv := range r.Hdr {
		fmt.Fprintf(&b, "%s: %s\r\n", kv[0], kv[1])
	}
	if r.Body != "" {
		fmt.Fprintf(&b, "Content-Length: %d\r\n", len(r.Body))
	}
	b.WriteString("\r\n")
	b.WriteString(r.Body)
	req, err := http.ReadRequest(bufio.NewReader(&b))
	if err != nil {
		panic(fmt.Sprintf("harness: cannot build request %v: %v", r, err))
	}
	if r.Body != "" {
		// keep the body replayable
		data, _ := io.ReadAll(req.Body)
		req.Body = io.NopCloser(bytes.NewReader(data))
	}
	if r.Empty {
		req.URL.Path = ""
		req.URL.RawPath = ""
	}
	req.RemoteAddr = "192.0.2.1:1234"
	return req
}

// Rec is a light recording ResponseWriter.
type Rec struct {
	Code      int
	HeaderMap http.Header
	Buf       bytes.Buffer
	Wrote     bool // WriteHeader happened (explicitly or implicitly)
	NWrites   int
	Snapshot  http.Header // header as of WriteHeader
}

func NewRec() *Rec { return &Rec{Code: 200, HeaderMap: http.Header{}} }

func (r *Rec) Reset() {
	r.Code = 200
	r.HeaderMap = http.Header{}
	r.Buf.Reset()
	r.Wrote = false
	r.NWrites = 0
	r.Snapshot = nil
}
func (r *Rec) Header() http.Header { return r.HeaderMap }
func (r *Rec) WriteHeader(c int) {
	if r.Wrote {
		return
	}
	r.Wrote = true
	r.Code = c
	r.Snapshot = r.HeaderMap.Clone()
}
func (r *Rec) Write(b []byte) (int, error) {
	if !r.Wrote {
		r.WriteHeader(200)
	}
	r.NWrites++
	return r.Buf.Write(b)
}

// Result returns the headers a client would see (those set before the status line went out).
func (r *Rec) Result() http.Header {
	if r.Snapshot != nil {
		return r.Snapshot
	}
	return r.HeaderMap
}

// SetOf splits a comma separated header value into a sorted, de-duplicated, space-trimmed set.
func SetOf(v string) []string {
	if strings.TrimSpace(v) == "" {
		return nil
	}
	m := map[string]bool{}
	for _, p := range strings.Split(v, ",") {
		p = strings.TrimSpace(p)
		if p != "" {
			m[p] = true
		}
	}
	out := make([]string, 0, len(m))
	for k := range m {
		out = append(out, k)
	}
	sort.Strings(out)
	return out
}

func SortedCopy(in []string) []string {
	m := map[string]bool{}
	for _, s := range in {
		m[s] = true
	}
	out := make([]string, 0, len(m))
	for k := range m {
		out = append(out, k)
	}
	sort.Strings(out)
	return out
}

func EqStrs(a, b []string) bool {
	if len(a) != len(b) {
		return false
	}
	for i := range a {
		if a[i] != b[i] {
			return false
		}
	}
	return true
}

func EqMap(a, b map[string]string) bool {
	if len(a) != len(b) {
		return false
	}
	for k, v := range a {
		if w, ok := b[k]; !ok || w != v {
			return false
		}
	}
	return true
}

func CopyMap(a map[string]string) map[string]string {
	m := make(map[string]string, len(a))
	for k, v := range a {
		m[k] = v
	}
	return m
}
