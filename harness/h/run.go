package h

import (
	"encoding/json"
	"fmt"
	"os"
	"path/filepath"
	"runtime"
	"sort"
	"strconv"
	"sync"
	"sync/atomic"
	"time"
)

// Root is the /verif directory (cwd of every check command).
func Root() string {
	if r := os.Getenv("VERIF_ROOT"); r != "" {
		return r
	}
	wd, _ := os.Getwd()
	return wd
}

// Finding is one entry of known_findings.json.
type Finding struct {
	Status   string `json:"status"`   // "known" or "fixed"
	Property string `json:"property"` // Cxx
	Finding  string `json:"finding"`  // Fx: key that a check's signature predicate returns
	Commit   string `json:"commit,omitempty"`
	What     string `json:"what"`
	Line     string `json:"line,omitempty"`
}

type findingsFile struct {
	Comment  string    `json:"comment"`
	Findings []Finding `json:"findings"`
}

func loadFindings() []Finding {
	data, err := os.ReadFile(filepath.Join(Root(), "known_findings.json"))
	if err != nil {
		return nil
	}
	var f findingsFile
	if err := json.Unmarshal(data, &f); err != nil {
		fmt.Fprintf(os.Stderr, "harness: known_findings.json unreadable: %v\n", err)
		os.Exit(2)
	}
	return f.Findings
}

// Violation is one violating case.
type Violation struct {
	Property string `json:"property"`
	Class    string `json:"class"`             // short grouping key (which oracle clause failed)
	Finding  string `json:"finding,omitempty"` // signature key if the case matches a finding predicate
	Detail   any    `json:"detail"`            // the replayable case
	Message  string `json:"message"`
}

// Run collects what one check invocation covered and found.
type Run struct {
	Prop  string
	Tier  string
	Seed  int64
	start time.Time

	mu         sync.Mutex
	known      map[string]Finding // finding key -> entry (status known, this property)
	viol       []Violation        // unlisted violations (capped)
	violTotal  int64
	violClass  map[string]int64
	knownHits  map[string]int64
	knownFirst map[string]Violation
	samples    []any
	sampleSeen int64
	Cov        map[string]any
	counters   map[string]*int64
	Assume     []string
	broken     []string
}

func NewRun(prop, tier string) *Run {
	seed, _ := strconv.ParseInt(os.Getenv("VERIF_SEED"), 10, 64)
	r := &Run{Prop: prop, Tier: tier, Seed: seed, start: time.Now(),
		known: map[string]Finding{}, violClass: map[string]int64{}, knownHits: map[string]int64{},
		knownFirst: map[string]Violation{}, Cov: map[string]any{}, counters: map[string]*int64{}}
	for _, f := range loadFindings() {
		if f.Status == "known" && f.Property == prop {
			r.known[f.Finding] = f
		}
	}
	return r
}

// Counter returns an atomic counter registered under name (reported in coverage).
func (r *Run) Counter(name string) *int64 {
	r.mu.Lock()
	defer r.mu.Unlock()
	if c, ok := r.counters[name]; ok {
		return c
	}
	c := new(int64)
	r.counters[name] = c
	return c
}

// Sample offers a case for the evidence samples (keeps a small, seed-dependent selection).
func (r *Run) Sample(s any) {
	r.mu.Lock()
	defer r.mu.Unlock()
	r.sampleSeen++
	const keep = 6
	if len(r.samples) < keep {
		r.samples = append(r.samples, s)
		return
	}
	// deterministic reservoir-ish replacement driven by the seed; verdicts never depend on it
	x := uint64(r.sampleSeen)*2654435761 + uint64(r.Seed)*40503
	if x%uint64(r.sampleSeen) < keep {
		r.samples[x%keep] = s
	}
}

// Broken records a harness failure (exit 2): the check itself is not trustworthy.
func (r *Run) Broken(msg string) {
	r.mu.Lock()
	defer r.mu.Unlock()
	r.broken = append(r.broken, msg)
}

// Violate records a violating case. finding is the signature key ("" if none matches); if
// known_findings.json lists it as known for this property it is reported as KNOWN-FINDING.
// recheck (optional) re-executes the case on fresh instances; it must reproduce 5 times.
func (r *Run) Violate(class, finding, msg string, detail any, recheck func() bool) {
	r.ViolateH(class, finding, msg, detail, recheck, nil)
}

// ViolateH is Violate with a second way to reproduce: if the case does not reproduce on a fresh
// instance alone, histRecheck replays the whole history that preceded it on a fresh instance
// (containers are reused across the requests of a sweep, so a state-dependent wrong answer is
// still a violation of the property - it only needs its history as witness). onHistory lets the
// caller mark the stored detail.
func (r *Run) ViolateH(class, finding, msg string, detail any, recheck func() bool, histRecheck func() bool) {
	r.mu.Lock()
	if finding != "" {
		if _, ok := r.known[finding]; ok {
			r.knownHits[finding]++
			if _, seen := r.knownFirst[finding]; !seen {
				r.knownFirst[finding] = Violation{r.Prop, class, finding, detail, msg}
			}
			r.mu.Unlock()
			return
		}
	}
	r.violTotal++
	r.violClass[class]++
	store := len(r.viol) < 25 && r.violClass[class] <= 5
	r.mu.Unlock()
	if !store {
		return
	}
	if recheck != nil {
		for i := 0; i < 5; i++ {
			if recheck() {
				continue
			}
			if i == 0 && histRecheck != nil {
				ok := true
				for j := 0; j < 5 && ok; j++ {
					ok = histRecheck()
				}
				if ok {
					class += "(needs-its-history)"
					msg += " [does not reproduce on a fresh container alone; reproduces 5/5 when the requests served before it on the same container are replayed]"
					break
				}
			}
			r.Broken(fmt.Sprintf("HARNESS-NONDETERMINISM: violation %q did not reproduce on re-run %d (neither alone nor with its history; cross-request interference inside the package would look like this - see C19/C12): %s", class, i+1, msg))
			return
		}
	}
	r.mu.Lock()
	r.viol = append(r.viol, Violation{r.Prop, class, finding, detail, msg})
	r.mu.Unlock()
}

func (r *Run) Violations() int64 { r.mu.Lock(); defer r.mu.Unlock(); return r.violTotal }

// Finish writes evidence and replay files, prints the verdict lines and returns the exit code.
func (r *Run) Finish() int {
	r.mu.Lock()
	defer r.mu.Unlock()
	root := Root()
	wall := time.Since(r.start).Seconds()
	cov := r.Cov
	for k, c := range r.counters {
		cov[k] = atomic.LoadInt64(c)
	}
	if len(r.samples) == 0 {
		r.samples = []any{"(no sample recorded)"}
	}
	cov["samples"] = r.samples
	kh := map[string]int64{}
	for k, v := range r.knownHits {
		kh[k] = v
	}
	cov["known_findings_hit"] = kh
	vc := map[string]int64{}
	for k, v := range r.violClass {
		vc[k] = v
	}
	cov["violation_classes"] = vc
	ev := map[string]any{
		"property_id": r.Prop, "tier": r.Tier, "seed": r.Seed, "level": "model_checking",
		"coverage": cov, "assumptions": r.Assume, "wall_s": wall, "violations": r.violTotal,
	}
	os.MkdirAll(filepath.Join(root, "evidence"), 0o755)
	data, _ := json.MarshalIndent(ev, "", " ")
	if err := os.WriteFile(filepath.Join(root, "evidence", r.Prop+os.Getenv("VERIF_EVIDENCE_SUFFIX")+".json"), data, 0o644); err != nil {
		fmt.Fprintf(os.Stderr, "cannot write evidence: %v\n", err)
		return 2
	}
	if len(r.broken) > 0 && len(r.viol) == 0 {
		for _, b := range r.broken {
			fmt.Printf("BROKEN-CHECK property=%s %s\n", r.Prop, b)
		}
		return 2
	}
	// reproducible violations stand on their own; non-reproducing observations are notes
	for i, b := range r.broken {
		if i < 3 {
			fmt.Printf("NOTE property=%s (not counted) %s\n", r.Prop, b)
		}
	}
	keys := make([]string, 0, len(r.knownHits))
	for k := range r.knownHits {
		keys = append(keys, k)
	}
	sort.Strings(keys)
	for _, k := range keys {
		f := r.known[k]
		fmt.Printf("KNOWN-FINDING: property=%s %s: %s (%d cases; e.g. %s)\n", r.Prop, k, f.What, r.knownHits[k], r.knownFirst[k].Message)
	}
	if r.violTotal == 0 {
		fmt.Printf("OK property=%s tier=%s wall=%.1fs %s\n", r.Prop, r.Tier, wall, summary(cov))
		return 0
	}
	dir := filepath.Join(root, "replays")
	os.MkdirAll(dir, 0o755)
	for i, v := range r.viol {
		p := filepath.Join(dir, fmt.Sprintf("%s-%s-%d.json", r.Prop, r.Tier, i))
		data, _ := json.MarshalIndent(v, "", " ")
		os.WriteFile(p, data, 0o644)
		fmt.Printf("VIOLATION property=%s replay=%s class=%s %s\n", r.Prop, p, v.Class, v.Message)
	}
	if len(r.viol) == 0 {
		fmt.Printf("VIOLATION property=%s replay=%s (violations found but none stored)\n", r.Prop, dir)
	}
	fmt.Printf("FAILED property=%s tier=%s violations=%d classes=%v wall=%.1fs\n", r.Prop, r.Tier, r.violTotal, r.violClass, wall)
	return 1
}

func summary(cov map[string]any) string {
	s := ""
	for _, k := range []string{"states", "transitions", "traces_validated_against_impl", "evaluations", "distinct_nontrivial", "schedules", "distinct_outcomes", "exhaustive"} {
		if v, ok := cov[k]; ok {
			s += fmt.Sprintf("%s=%v ", k, v)
		}
	}
	return s
}

// Workers is the degree of parallelism for in-process sharding.
func Workers() int {
	if v, err := strconv.Atoi(os.Getenv("VERIF_WORKERS")); err == nil && v > 0 {
		return v
	}
	n := runtime.NumCPU()
	if n > 16 {
		n = 16
	}
	return n
}

// Parallel runs fn(worker, i) for i in [0,n) on Workers() goroutines (dynamic distribution).
func Parallel(n int, fn func(worker, i int)) {
	w := Workers()
	if w > n {
		w = n
	}
	if w < 1 {
		w = 1
	}
	var next int64 = -1
	var wg sync.WaitGroup
	for k := 0; k < w; k++ {
		wg.Add(1)
		go func(k int) {
			defer wg.Done()
			for {
				i := int(atomic.AddInt64(&next, 1))
				if i >= n {
					return
				}
				fn(k, i)
			}
		}(k)
	}
	wg.Wait()
}

// DistinctSet is a concurrent set of strings with a cap on stored keys (counts beyond the cap
// are not distinguished; Capped reports whether that happened).
type DistinctSet struct {
	mu     sync.Mutex
	m      map[string]struct{}
	cap    int
	capped bool
}

func NewDistinctSet(cap int) *DistinctSet { return &DistinctSet{m: map[string]struct{}{}, cap: cap} }
func (d *DistinctSet) Add(k string) {
	d.mu.Lock()
	if _, ok := d.m[k]; !ok {
		if len(d.m) < d.cap {
			d.m[k] = struct{}{}
		} else {
			d.capped = true
		}
	}
	d.mu.Unlock()
}
func (d *DistinctSet) Len() int { d.mu.Lock(); defer d.mu.Unlock(); return len(d.m) }
func (d *DistinctSet) Keys() []string {
	d.mu.Lock()
	defer d.mu.Unlock()
	out := make([]string, 0, len(d.m))
	for k := range d.m {
		out = append(out, k)
	}
	sort.Strings(out)
	return out
}
