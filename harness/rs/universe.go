package rs

import (
	"strings"

	"verif/harness/h"
	rm "verif/harness/refmodel"
)

const (
	JSON = "application/json"
	XML  = "application/xml"
)

// Universe is the tuple of finite alphabets a routing sweep enumerates (DESIGN.md §6, U-route).
type Universe struct {
	Tokens   []string // template tokens; tail wildcard and verb tokens only in last position
	Roots    []string
	MaxSub   int      // max tokens in a route sub-path
	Segs     []string // request segments
	MaxPath  int      // max request segments
	RMethods []string // route methods
	QMethods []string // request methods
	Lead     bool     // also paths with a doubled leading slash / doubled trailing slash
}

func isTail(tok string) bool { return strings.HasSuffix(tok, ":*}") }
func isVerb(tok string) bool {
	i := strings.LastIndex(tok, ":")
	if i < 0 || i == len(tok)-1 {
		return false
	}
	for _, c := range tok[i+1:] {
		if !(c >= 'a' && c <= 'z' || c >= 'A' && c <= 'Z') {
			return false
		}
	}
	return true
}

// Subs enumerates route sub-paths: "", "/", and every token string of length 1..MaxSub where the
// tail wildcard and custom-verb tokens appear only in the last position.
func (u Universe) Subs() []string {
	out := []string{"", "/"}
	var rec func(prefix []string, n int)
	rec = func(prefix []string, n int) {
		for _, t := range u.Tokens {
			last := len(prefix) == n-1
			if !last && (isTail(t) || isVerb(t)) {
				continue
			}
			cur := append(append([]string{}, prefix...), t)
			if last {
				out = append(out, "/"+strings.Join(cur, "/"))
			} else {
				rec(cur, n)
			}
		}
	}
	for n := 1; n <= u.MaxSub; n++ {
		rec(nil, n)
	}
	return out
}

// Paths enumerates request paths: every segment string of length 0..MaxPath, each with and
// without one trailing slash (where that differs), optionally non-canonical variants.
func (u Universe) Paths() []h.Req {
	var out []h.Req
	var rec func(prefix []string, n int)
	rec = func(prefix []string, n int) {
		if len(prefix) == n {
			segs := append([]string{}, prefix...)
			out = append(out, h.Req{Segs: segs})
			if n > 0 {
				out = append(out, h.Req{Segs: segs, Slash: true})
				if u.Lead {
					out = append(out, h.Req{Segs: segs, Lead: 1})
				}
			}
			return
		}
		for _, s := range u.Segs {
			rec(append(prefix, s), n)
		}
	}
	for n := 0; n <= u.MaxPath; n++ {
		rec(nil, n)
	}
	return out
}

// HeaderCombo is one combination of the header-ish request dimensions.
type HeaderCombo struct {
	CT, Accept, XC string
	Body           bool
}

func (hc HeaderCombo) Apply(r h.Req) h.Req {
	r.Hdr = nil
	if hc.CT != "" {
		r.Hdr = append(r.Hdr, [2]string{"Content-Type", hc.CT})
	}
	if hc.Accept != "" {
		r.Hdr = append(r.Hdr, [2]string{"Accept", hc.Accept})
	}
	if hc.XC != "" {
		r.Hdr = append(r.Hdr, [2]string{"X-C", hc.XC})
	}
	if hc.Body {
		r.Body = `{"a":1}`
	} else {
		r.Body = ""
	}
	return r
}

// HeaderDecl is the header-ish part of a route declaration.
type HeaderDecl struct {
	Consumes, Produces []string
	If                 []rm.Cond
	NoCT               []string
}

type HeaderUniverse struct {
	Consumes [][]string
	Produces [][]string
	Ifs      [][]rm.Cond
	NoCT     [][]string
	CTs      []string
	Accepts  []string
	XCs      []string
	Bodies   []bool
}

func (hu HeaderUniverse) Decls() []HeaderDecl {
	var out []HeaderDecl
	for _, c := range hu.Consumes {
		for _, p := range hu.Produces {
			for _, i := range hu.Ifs {
				for _, n := range hu.NoCT {
					if len(n) > 0 && len(c) == 0 {
						continue // the list only matters with a Consumes restriction
					}
					out = append(out, HeaderDecl{c, p, i, n})
				}
			}
		}
	}
	return out
}

func (hu HeaderUniverse) Combos() []HeaderCombo {
	var out []HeaderCombo
	for _, ct := range hu.CTs {
		for _, a := range hu.Accepts {
			for _, x := range hu.XCs {
				for _, b := range hu.Bodies {
					out = append(out, HeaderCombo{ct, a, x, b})
				}
			}
		}
	}
	return out
}

func QuickHeaders() HeaderUniverse {
	return HeaderUniverse{
		Consumes: [][]string{nil, {JSON}, {XML, JSON}, {"*/*"}},
		Produces: [][]string{nil, {JSON}, {XML}, {JSON, XML}, {"*/*"}},
		Ifs:      [][]rm.Cond{nil, {rm.CondTrue}, {rm.CondFalse}, {rm.CondHdr}},
		NoCT:     [][]string{nil, {"POST"}, {"GET", "POST"}},
		CTs:      []string{"", JSON, XML, "application/json; charset=utf-8", "text/plain", "application/jsonx", "*/*", "application/json ; charset=utf-8"},
		Accepts:  []string{"", "*/*", JSON, XML, "text/plain", "application/xml;q=0.5, application/json", "application/jsonx", ",;q=, " + JSON},
		XCs:      []string{"", "1"},
		Bodies:   []bool{false, true},
	}
}

func ThoroughHeaders() HeaderUniverse {
	hu := QuickHeaders()
	hu.Produces = append(hu.Produces, []string{"application/vnd.v+json"})
	hu.Ifs = append(hu.Ifs, []rm.Cond{rm.CondTrue, rm.CondHdr}, []rm.Cond{rm.CondHdr, rm.CondFalse})
	hu.CTs = append(hu.CTs, ";;,", " application/json ", "text/plain, */*;q=0.1")
	hu.Accepts = append(hu.Accepts, "text/plain, */*;q=0.1", ",;q=", strings.Repeat(",", 2048), " application/json ; q=1")
	return hu
}

// Two representative header combinations for the path sweep.
var PathSweepHeaders = []HeaderCombo{{}, {CT: JSON, Accept: JSON, Body: true, XC: "1"}}

var baseTokens = []string{"a", "b", "{x}", "{y}", "{n:[0-9]+}", "{w:[a-z]}", "{s}.js", "{t:*}", "a:go", "{x}:go", "pre_{p}", "a.{p}.js"}
var baseRoots = []string{"/", "/a", "/a/b", "/{r}", "/a/{r}", "/a/"}
var baseSegs = []string{"a", "b", "7", "ab", "x.js", "a.js", "a:go", "7:go", "", "pre_z", "é{x}", "7go", "7:ungo", ".js", "pre_"}

// JSR311 documents literals, {v}, {v:regex} and the tail wildcard only.
var jsrTokens = []string{"a", "b", "{x}", "{y}", "{n:[0-9]+}", "{w:[a-z]}", "{t:*}", "{g:[a-z]+(x7)?}"}
var jsrSegs = []string{"a", "b", "7", "ab", "x.js", "", "abx7"}

// PathUniverse returns the universe of a path sweep for a router and tier. small selects the
// halved alphabets used for multi-route tables. Sizes are chosen so that a quick check stays
// around a minute and a thorough one around 10-20 minutes on 16 cores.
func PathUniverse(r rm.Router, tier string, small bool) Universe {
	u := Universe{RMethods: []string{"GET", "POST"}, QMethods: []string{"GET", "POST", "PUT"}}
	if r == rm.Curly {
		// CurlyRouter also gets root paths whose token is a variable with a literal suffix / prefix
		u.Tokens, u.Roots, u.Segs = baseTokens, append(append([]string{}, baseRoots...), "/{q}.js", "/pre_{u}"), baseSegs
	} else {
		u.Tokens, u.Roots, u.Segs = jsrTokens, baseRoots, jsrSegs
	}
	u.MaxSub, u.MaxPath = 2, 3
	thorough := tier == "thorough"
	if small {
		u.MaxSub = 1
		if r == rm.Curly {
			u.Tokens = []string{"a", "{x}", "{n:[0-9]+}", "{s}.js", "{t:*}", "a:go", "b", "{x}:go", "pre_{p}", "{w:[a-z]}"}
			u.Segs = []string{"a", "b", "7", "x.js", "a:go", "", "7go"}
		} else {
			u.Tokens = []string{"a", "{x}", "{n:[0-9]+}", "{t:*}", "b"}
			u.Segs = []string{"a", "b", "7", ""}
		}
		if thorough {
			u.Roots = append(append([]string{}, u.Roots...), "/{r:[0-9]+}", "/b")
			u.Segs = append(append([]string{}, u.Segs...), "pre_z", "ab", "42")
			u.QMethods = []string{"GET", "POST", "PUT", "DELETE"}
		}
		return u
	}
	if thorough {
		if r == rm.Curly {
			u.Tokens = append(append([]string{}, u.Tokens...), "pre_{p}.js", "{n:[0-9]}", "b:run")
			u.Roots = append(append([]string{}, u.Roots...), "/{r:[0-9]+}", "/{q:[a-z]+}", "/a/{r}/c", "/b")
			u.Segs = append(append([]string{}, u.Segs...), "42", ".js", strings.Repeat("z", 300), "a:run", "a/b")
			u.Lead = true
		} else {
			u.Tokens = append(append([]string{}, u.Tokens...), "{n:[0-9]}")
			u.Roots = append(append([]string{}, u.Roots...), "/{r:[0-9]+}", "/a/{r}/c", "/b")
			u.Segs = append(append([]string{}, u.Segs...), "42", "é", strings.Repeat("z", 300), "a/b")
		}
		u.QMethods = []string{"GET", "POST", "PUT", "DELETE", "OPTIONS"}
	}
	return u
}

// DeepUniverse: longer templates and paths (3-token sub-paths, 4-segment paths) over a reduced
// alphabet; thorough tier only.
func DeepUniverse(r rm.Router) Universe {
	u := Universe{RMethods: []string{"GET", "POST"}, QMethods: []string{"GET", "POST", "PUT"}, MaxSub: 3, MaxPath: 4, Roots: baseRoots}
	if r == rm.Curly {
		u.Tokens = []string{"a", "{x}", "{n:[0-9]+}", "{s}.js", "{t:*}", "a:go", "b"}
		u.Segs = []string{"a", "b", "7", "x.js", "a:go", ""}
	} else {
		u.Tokens = []string{"a", "{x}", "{n:[0-9]+}", "{t:*}", "b"}
		u.Segs = []string{"a", "b", "7", ""}
	}
	return u
}

// DeepPairUniverse: 2-token sub-paths for two-route tables over a further reduced alphabet.
func DeepPairUniverse(r rm.Router) Universe {
	u := Universe{RMethods: []string{"GET", "POST"}, QMethods: []string{"GET", "POST", "PUT"}, MaxSub: 2, MaxPath: 3, Roots: []string{"/", "/a", "/{r}", "/a/{r}"}}
	if r == rm.Curly {
		u.Tokens = []string{"a", "{x}", "{n:[0-9]+}", "{s}.js", "{t:*}"}
		u.Segs = []string{"a", "b", "7", "x.js", ""}
	} else {
		u.Tokens = []string{"a", "{x}", "{n:[0-9]+}", "{t:*}"}
		u.Segs = []string{"a", "b", "7", ""}
	}
	return u
}
