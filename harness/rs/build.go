// Package rs (routing sweep) builds real containers from abstract route tables, runs requests
// through the real entry points and extracts observable outcomes. Shared by the E1 routing checks.
package rs

import (
	"fmt"
	"io"
	"net/http"
	"sort"
	"strings"

	restful "github.com/emicklei/go-restful/v3"

	"verif/harness/h"
	rm "verif/harness/refmodel"
)

type sink struct{}

func (sink) Print(v ...interface{})                 {}
func (sink) Printf(format string, v ...interface{}) {}

// Quiet silences the package's loggers. Tracing stays off unless trace is true (then trace
// output goes to the sink as well, so the trace branches execute).
func Quiet(trace bool) {
	restful.SetLogger(sink{})
	restful.TraceLogger(sink{})
	restful.EnableTracing(trace)
}

// Invocation is what a generated route function records about itself and about what it sees.
type Invocation struct {
	Phase     string            `json:"phase,omitempty"` // "", "after-nested"
	ID        int               `json:"id"`
	SelPath   string            `json:"sel_path"`   // Request.SelectedRoutePath()
	SelMethod string            `json:"sel_method"` // Request.SelectedRoute().Method()
	SelRPath  string            `json:"sel_rpath"`  // Request.SelectedRoute().Path()
	Params    map[string]string `json:"params"`
}

type CondCall struct {
	Route  int
	Idx    int
	Result bool
}

// Log is the per-request event log of a built container (reset before each dispatch).
type Log struct {
	Invoked    []Invocation
	FilterSel  []string // SelectedRoutePath seen by the container filter (entry)
	FilterSelM []string
	Conds      []CondCall
}

func (l *Log) Reset() {
	l.Invoked = l.Invoked[:0]
	l.FilterSel = l.FilterSel[:0]
	l.FilterSelM = l.FilterSelM[:0]
	l.Conds = l.Conds[:0]
}

// Built is a real container built from a table.
type Built struct {
	C      *restful.Container
	WS     []*restful.WebService
	Log    *Log
	Panic  string // construction panicked
	Router rm.Router
}

type BuildOpt struct {
	Router     rm.Router
	Filter     bool  // install a logging container filter
	SvcOrder   []int // permutation of services (nil = identity)
	RouteOrder [][]int
	Options    bool // install the container's OPTIONSFilter
	Dynamic    bool
	Switched   bool // configure the other router first, then switch to Router (configuration history)
	Reuse      bool // every route of a service after the first is declared by using the first route's RouteBuilder again (Method, Path, Consumes, Produces set anew, further If conditions added)
	Longhand   bool // declare every route with Method(m).Path(p) instead of the per-method shortcuts (GET(p), HEAD(p), ...)
	Nest       bool // route functions honour X-Nest: dispatch a nested GET to that path, then look at their own request again
}

// Build constructs a fresh real container through the public API.
func Build(t rm.Table, o BuildOpt) (b *Built) {
	b = &Built{Log: &Log{}, Router: o.Router}
	defer func() {
		if r := recover(); r != nil {
			b.Panic = fmt.Sprint(r)
		}
	}()
	c := restful.NewContainer()
	if o.Switched {
		if o.Router == rm.JSR311 {
			c.Router(restful.CurlyRouter{})
		} else {
			c.Router(restful.RouterJSR311{})
		}
	}
	if o.Router == rm.JSR311 {
		c.Router(restful.RouterJSR311{})
	} else {
		c.Router(restful.CurlyRouter{})
	}
	lg := b.Log
	if o.Filter {
		c.Filter(func(req *restful.Request, resp *restful.Response, chain *restful.FilterChain) {
			lg.FilterSel = append(lg.FilterSel, req.SelectedRoutePath())
			if sr := req.SelectedRoute(); sr != nil {
				lg.FilterSelM = append(lg.FilterSelM, sr.Method())
			} else {
				lg.FilterSelM = append(lg.FilterSelM, "")
			}
			chain.ProcessFilter(req, resp)
		})
	}
	if o.Options {
		c.Filter(c.OPTIONSFilter)
	}
	b.WS = make([]*restful.WebService, len(t.Svcs))
	order := o.SvcOrder
	if order == nil {
		order = identity(len(t.Svcs))
	}
	for _, si := range order {
		s := t.Svcs[si]
		ws := new(restful.WebService).Path(s.Root)
		if len(s.Consumes) > 0 {
			ws.Consumes(s.Consumes...)
		}
		if len(s.Produces) > 0 {
			ws.Produces(s.Produces...)
		}
		if o.Dynamic {
			ws.SetDynamicRoutes(true)
		}
		ro := identity(len(s.Routes))
		if o.RouteOrder != nil && o.RouteOrder[si] != nil {
			ro = o.RouteOrder[si]
		}
		var first *restful.RouteBuilder
		firstIdx := 0
		for _, ri := range ro {
			var rb *restful.RouteBuilder
			if o.Reuse && first != nil {
				rb = reuseBuilder(first, s.Routes[ri], len(s.Routes[firstIdx].If), lg)
			} else {
				rb = routeBuilder(ws, s.Routes[ri], lg, o.Longhand)
				if first == nil {
					first, firstIdx = rb, ri
				}
			}
			if o.Nest {
				nestable(rb, s.Routes[ri].ID, lg, b)
			}
			ws.Route(rb)
		}
		b.WS[si] = ws
		c.Add(ws)
	}
	b.C = c
	return b
}

// reuseBuilder declares a further route with a builder that has already built one: method, path,
// Consumes and Produces are set anew (the declaration must give both lists), conditions accumulate
// on a builder, so only those beyond the first prevIf are added, and the function is replaced.
func reuseBuilder(rb *restful.RouteBuilder, r rm.RouteDecl, prevIf int, lg *Log) *restful.RouteBuilder {
	rb.Method(r.Method).Path(r.Sub).Consumes(r.Consumes...).Produces(r.Produces...)
	id := r.ID
	for ci := prevIf; ci < len(r.If); ci++ {
		ci, cond := ci, r.If[ci]
		rb.If(func(hr *http.Request) bool {
			res := cond.Eval(hr.Header.Get("X-C"))
			lg.Conds = append(lg.Conds, CondCall{id, ci, res})
			return res
		})
	}
	rb.To(func(req *restful.Request, resp *restful.Response) {
		inv := Invocation{ID: id, SelPath: req.SelectedRoutePath(), Params: h.CopyMap(req.PathParameters())}
		if sr := req.SelectedRoute(); sr != nil {
			inv.SelMethod, inv.SelRPath = sr.Method(), sr.Path()
		}
		lg.Invoked = append(lg.Invoked, inv)
		resp.Header().Set("X-Route", fmt.Sprint(id))
		io.WriteString(resp, "ok")
	})
	return rb
}

// RouteBuilder turns a declaration into a RouteBuilder with a logging function and conditions.
func RouteBuilder(ws *restful.WebService, r rm.RouteDecl, lg *Log) *restful.RouteBuilder {
	return routeBuilder(ws, r, lg, false)
}

func routeBuilder(ws *restful.WebService, r rm.RouteDecl, lg *Log, longhand bool) *restful.RouteBuilder {
	// the per-method shortcuts of WebService are what applications use; other methods go through
	// Method(..).Path(..)
	var rb *restful.RouteBuilder
	method := r.Method
	if longhand {
		method = "(longhand) " + method
	}
	switch method {
	case "GET":
		rb = ws.GET(r.Sub)
	case "POST":
		rb = ws.POST(r.Sub)
	case "PUT":
		rb = ws.PUT(r.Sub)
	case "DELETE":
		rb = ws.DELETE(r.Sub)
	case "PATCH":
		rb = ws.PATCH(r.Sub)
	case "HEAD":
		rb = ws.HEAD(r.Sub)
	case "OPTIONS":
		rb = ws.OPTIONS(r.Sub)
	default:
		rb = ws.Method(r.Method).Path(r.Sub)
	}
	if len(r.Consumes) > 0 {
		rb.Consumes(r.Consumes...)
	}
	if len(r.Produces) > 0 {
		rb.Produces(r.Produces...)
	}
	if len(r.NoCT) > 0 {
		rb.AllowedMethodsWithoutContentType(r.NoCT)
	}
	id := r.ID
	for ci, cond := range r.If {
		ci, cond := ci, cond
		rb.If(func(hr *http.Request) bool {
			res := cond.Eval(hr.Header.Get("X-C"))
			lg.Conds = append(lg.Conds, CondCall{id, ci, res})
			return res
		})
	}
	rb.To(func(req *restful.Request, resp *restful.Response) {
		inv := Invocation{ID: id, SelPath: req.SelectedRoutePath(), Params: h.CopyMap(req.PathParameters())}
		// the single-value accessor must agree with the map
		for k, v := range req.PathParameters() {
			if one := req.PathParameter(k); one != v {
				inv.Params["PathParameter("+k+") disagrees with PathParameters()"] = one
			}
		}
		if sr := req.SelectedRoute(); sr != nil {
			inv.SelMethod, inv.SelRPath = sr.Method(), sr.Path()
		}
		lg.Invoked = append(lg.Invoked, inv)
		resp.Header().Set("X-Route", fmt.Sprint(id))
		io.WriteString(resp, "ok")
	})
	return rb
}

// nestable replaces the route function by one that, when the request carries X-Nest, dispatches a
// nested GET for that path on the same container (single goroutine) and afterwards records once
// more what it sees as its own selected route and parameters.
func nestable(rb *restful.RouteBuilder, id int, lg *Log, b *Built) {
	record := func(req *restful.Request, phase string) {
		inv := Invocation{Phase: phase, ID: id, SelPath: req.SelectedRoutePath(), Params: h.CopyMap(req.PathParameters())}
		if sr := req.SelectedRoute(); sr != nil {
			inv.SelMethod, inv.SelRPath = sr.Method(), sr.Path()
		}
		lg.Invoked = append(lg.Invoked, inv)
	}
	rb.To(func(req *restful.Request, resp *restful.Response) {
		record(req, "")
		if target := req.Request.Header.Get("X-Nest"); target != "" {
			inner, err := http.NewRequest("GET", "http://example.test"+target, nil)
			if err == nil {
				b.C.Dispatch(h.NewRec(), inner)
			}
			record(req, "after-nested")
		}
		io.WriteString(resp, "ok")
	})
}

func identity(n int) []int {
	p := make([]int, n)
	for i := range p {
		p[i] = i
	}
	return p
}

// Outcome is the observable result of one dispatch.
type Outcome struct {
	Panic    string       `json:"panic,omitempty"`
	Status   int          `json:"status"`
	Invoked  []Invocation `json:"invoked,omitempty"`
	Allow    []string     `json:"allow,omitempty"`
	HasAllow bool         `json:"has_allow,omitempty"`
	Location string       `json:"location,omitempty"`
}

// Key is a canonical comparable rendering (status, route, params, Allow set).
func (o Outcome) Key() string {
	var sb strings.Builder
	if o.Panic != "" {
		return "panic:" + o.Panic
	}
	fmt.Fprintf(&sb, "%d", o.Status)
	for _, inv := range o.Invoked {
		fmt.Fprintf(&sb, " #%d{", inv.ID)
		keys := make([]string, 0, len(inv.Params))
		for k := range inv.Params {
			keys = append(keys, k)
		}
		sort.Strings(keys)
		for _, k := range keys {
			fmt.Fprintf(&sb, "%s=%q,", k, inv.Params[k])
		}
		sb.WriteString("}")
	}
	if o.HasAllow {
		fmt.Fprintf(&sb, " allow=%v", o.Allow)
	}
	return sb.String()
}

// Do runs one request through Dispatch (serve=false) or ServeHTTP (serve=true).
func (b *Built) Do(req *http.Request, rec *h.Rec, serve bool) (o Outcome) {
	b.Log.Reset()
	rec.Reset()
	func() {
		defer func() {
			if r := recover(); r != nil {
				o.Panic = fmt.Sprint(r)
			}
		}()
		if serve {
			b.C.ServeHTTP(rec, req)
		} else {
			b.C.Dispatch(rec, req)
		}
	}()
	o.Status = rec.Code
	if len(b.Log.Invoked) > 0 {
		o.Invoked = make([]Invocation, len(b.Log.Invoked))
		copy(o.Invoked, b.Log.Invoked)
	}
	hd := rec.Result()
	if v, ok := hd["Allow"]; ok {
		o.HasAllow = true
		o.Allow = h.SetOf(strings.Join(v, ","))
	}
	o.Location = hd.Get("Location")
	return o
}

// ModelReq converts a harness request into the reference model's view.
func ModelReq(r h.Req) rm.Request {
	return rm.Request{Method: r.Method, Path: r.Path(), CT: r.Header("Content-Type"), Accept: r.Header("Accept"),
		HasBody: r.Body != "", XC: r.Header("X-C")}
}
