// Package vsched is the controlled cooperative scheduler, the sync shims and the stateless
// schedule explorer (engine E3). It is compiled into the package under test through a build
// overlay as the virtual package github.com/emicklei/go-restful/v3/zverif/vsched: the
// instrumenter rewrites `import "sync"` of package restful to this package, inserts Yield calls
// before channel operations and Read/Write calls around shared-field accesses.
//
// When no execution is active every shim falls through to the real sync primitive, so the
// instrumented package behaves exactly like the original.
package vsched

import (
	"fmt"
	"reflect"
	"runtime"
	"sort"
	"strings"
	"unsafe"
	rsync "sync"
)

// ---------------------------------------------------------------------------------------------
// vector clocks

type VC []int

func (v VC) clone() VC { c := make(VC, len(v)); copy(c, v); return c }
func (v *VC) join(o VC) {
	for len(*v) < len(o) {
		*v = append(*v, 0)
	}
	for i, x := range o {
		if x > (*v)[i] {
			(*v)[i] = x
		}
	}
}

// leq: epoch (tid, clk) happened-before-or-equals the clock v.
func (v VC) covers(tid, clk int) bool { return tid < len(v) && v[tid] >= clk }

// ---------------------------------------------------------------------------------------------
// execution

type opKind int

const (
	opStart opKind = iota
	opLock
	opLockAnnounce
	opRLock
	opPoolGet
	opPoolPut
	opChan
	opPoint
)

type pendingOp struct {
	kind       opKind
	label      string
	enabled    func() bool
	inProvider bool // a channel operation: being disabled here counts as "blocked"
}

type thread struct {
	id         int
	name       string
	wake       chan struct{}
	pending    *pendingOp
	done       bool
	started    bool
	vc         VC
	Panic      interface{}
	PanicStack string
	body       func()
}

// Point is one recorded decision of an execution.
type Point struct {
	Data     bool // data choice (pool hand-out, map order) rather than a thread choice
	Fanout   int  // number of alternatives
	Chosen   int
	Enabled  []int  // thread ids in canonical order (thread choice)
	RunStill bool   // the previously running thread is Enabled[0] (switching away preempts)
	Label    string // op the chosen thread performs / kind of data choice
}

// Race is a pair of conflicting accesses unordered by happens-before.
type Race struct {
	Loc    string
	First  string
	Second string
}

func (r Race) String() string { return fmt.Sprintf("%s: %s || %s", r.Loc, r.First, r.Second) }

// Blocked records a thread found disabled inside a channel (provider) operation.
type Blocked struct {
	Thread int
	Op     string
}

// Execution is the result of running one schedule to completion.
type Execution struct {
	Choices     []int
	Points      []Point
	Deadlock    bool
	Stuck       []string // pending ops of the threads that never finished
	Horizon     bool
	Races       []Race
	Blocked     []Blocked
	Panics      map[int]string
	Trace       []string // (thread:label) sequence, for determinism checks
	Steps       int
	Preemptions int
	Shared      []string // instrumented locations touched by more than one thread (vacuity guard)
}

type shadow struct {
	tids       uint64 // threads that touched this location (vacuity guard)
	name       string
	wTid, wClk int
	wWhere     string
	reads      map[int]int // tid -> clk
	rWhere     map[int]string
}

type exec struct {
	threads    []*thread
	running    *thread
	last       *thread
	sched      chan struct{}
	finish     chan struct{}
	prefix     []int
	x          *Execution
	mem        map[uintptr]*shadow
	raceSeen   map[string]bool
	objs       []resetter
	aborted    bool
	horizon    int
	trackRaces bool
}

type resetter interface{ vreset() }

var cur *exec

// Active reports whether a controlled execution is running.
func Active() bool { return cur != nil }

// Me returns the id of the running controlled thread (0 outside an execution).
func Me() int {
	if e := cur; e != nil && e.running != nil {
		return e.running.id
	}
	return 0
}

// Step returns the number of scheduling decisions taken so far in the active execution.
func Step() int {
	if e := cur; e != nil {
		return len(e.x.Points)
	}
	return 0
}

func (e *exec) nextChoice(n int) int {
	i := len(e.x.Choices)
	c := 0
	if i < len(e.prefix) {
		c = e.prefix[i]
		if c >= n {
			panic(fmt.Sprintf("vsched: replay divergence at decision %d: choice %d but only %d alternatives", i, c, n))
		}
	}
	e.x.Choices = append(e.x.Choices, c)
	return c
}

// yield parks the running thread at a scheduling point until the scheduler picks it again.
func (e *exec) yield(op *pendingOp) {
	t := e.running
	if t == nil {
		return
	}
	t.pending = op
	e.sched <- struct{}{}
	<-t.wake
	t.pending = nil
	if e.aborted {
		runtime.Goexit()
	}
}

func (e *exec) register(o resetter) { e.objs = append(e.objs, o) }

// Choose is an owned data choice among n alternatives made by the running thread.
func Choose(n int, label string) int {
	e := cur
	if e == nil || n <= 1 {
		return 0
	}
	c := e.nextChoice(n)
	e.x.Points = append(e.x.Points, Point{Data: true, Fanout: n, Chosen: c, Label: label})
	return c
}

// Yield is inserted by the instrumenter before channel operations. enabled == nil means the
// operation can never block (select with default).
func Yield(label string, enabled func() bool) {
	e := cur
	if e == nil {
		return
	}
	e.yield(&pendingOp{kind: opChan, label: label, enabled: enabled, inProvider: true})
}

// ChanSync gives channel operations acquire+release semantics on a per-channel clock.
var chanVC = map[uintptr]*VC{}

func ChanSync(ch interface{}) {
	e := cur
	if e == nil || e.running == nil {
		return
	}
	p := reflect.ValueOf(ch).Pointer()
	v, ok := chanVC[p]
	if !ok {
		v = &VC{}
		chanVC[p] = v
	}
	t := e.running
	t.vc.join(*v)
	v.join(t.vc)
	t.vc[t.id]++
}

// Point is a harness-declared scheduling point (no synchronisation semantics).
func Pt(label string) {
	e := cur
	if e == nil {
		return
	}
	e.yield(&pendingOp{kind: opPoint, label: label})
}

// ---------------------------------------------------------------------------------------------
// race detection (vector clocks over instrumented field / package-variable accesses)

func access(addr uintptr, name, where string, write bool) {
	e := cur
	if e == nil || !e.trackRaces {
		return
	}
	t := e.running
	if t == nil {
		return
	}
	s := e.mem[addr]
	if s == nil {
		s = &shadow{reads: map[int]int{}, rWhere: map[int]string{}}
		e.mem[addr] = s
	}
	s.tids |= 1 << uint(t.id)
	s.name = name
	me := fmt.Sprintf("T%d %s %s", t.id, rw(write), where)
	if s.wTid != 0 && s.wTid != t.id && !t.vc.covers(s.wTid, s.wClk) {
		e.race(name, fmt.Sprintf("T%d write %s", s.wTid, s.wWhere), me)
	}
	if write {
		for tid, clk := range s.reads {
			if tid != t.id && !t.vc.covers(tid, clk) {
				e.race(name, fmt.Sprintf("T%d read %s", tid, s.rWhere[tid]), me)
			}
		}
		s.wTid, s.wClk, s.wWhere = t.id, t.vc[t.id], where
		s.reads = map[int]int{}
		s.rWhere = map[int]string{}
	} else {
		s.reads[t.id] = t.vc[t.id]
		s.rWhere[t.id] = where
	}
}

func rw(w bool) string {
	if w {
		return "write"
	}
	return "read"
}

func (e *exec) race(loc, a, b string) {
	key := loc + "|" + stripT(a) + "|" + stripT(b)
	if e.raceSeen[key] {
		return
	}
	e.raceSeen[key] = true
	e.x.Races = append(e.x.Races, Race{loc, a, b})
}

func stripT(s string) string {
	if i := strings.Index(s, " "); i > 0 {
		return s[i+1:]
	}
	return s
}

// ReadF / WriteF take the address lazily so that nothing is evaluated outside an execution and a
// nil base pointer (hoisted in front of a short-circuit guard) is tolerated.
func ReadF(f func() uintptr, name, where string)  { accessF(f, name, where, false) }
func WriteF(f func() uintptr, name, where string) { accessF(f, name, where, true) }

func accessF(f func() uintptr, name, where string, write bool) {
	e := cur
	if e == nil || !e.trackRaces || e.running == nil {
		return
	}
	if a, ok := safeAddr(f); ok && a != 0 {
		access(a, name, where, write)
	}
}

// MapPtr identifies a map value by the address of its runtime header (0 for a nil map): the
// instrumenter observes a map as one location.
func MapPtr(m interface{}) uintptr {
	v := reflect.ValueOf(m)
	if v.Kind() != reflect.Map || v.IsNil() {
		return 0
	}
	return v.Pointer()
}

func safeAddr(f func() uintptr) (a uintptr, ok bool) {
	defer func() {
		if recover() != nil {
			ok = false
		}
	}()
	return f(), true
}

// CopyF / AppendF / RangeF observe element-level accesses of the builtins copy and append and of
// range loops over slices (inserted by the instrumenter in front of the statement). An append
// that fits the capacity writes in place into a backing array that other slices may share.
func CopyF(f func() (interface{}, interface{}), where string) {
	e := cur
	if e == nil || !e.trackRaces || e.running == nil {
		return
	}
	defer func() { recover() }()
	d, s := f()
	dv, sv := reflect.ValueOf(d), reflect.ValueOf(s)
	if dv.Kind() != reflect.Slice || sv.Kind() != reflect.Slice {
		return
	}
	n := dv.Len()
	if sv.Len() < n {
		n = sv.Len()
	}
	if n > 64 {
		n = 64
	}
	for i := 0; i < n; i++ {
		access(sv.Index(i).UnsafeAddr(), "element of "+sv.Type().String(), where, false)
		access(dv.Index(i).UnsafeAddr(), "element of "+dv.Type().String(), where, true)
	}
}

func AppendF(f func() (interface{}, int), where string) {
	e := cur
	if e == nil || !e.trackRaces || e.running == nil {
		return
	}
	defer func() { recover() }()
	x, n := f()
	v := reflect.ValueOf(x)
	if v.Kind() != reflect.Slice || v.IsNil() {
		return
	}
	l, c := v.Len(), v.Cap()
	full := v.Slice(0, c)
	for k := 0; k < n && l+k < c && k < 64; k++ {
		access(full.Index(l+k).UnsafeAddr(), "element of "+v.Type().String()+" (append in place)", where, true)
	}
}

func RangeF(f func() interface{}, where string) {
	e := cur
	if e == nil || !e.trackRaces || e.running == nil {
		return
	}
	defer func() { recover() }()
	v := reflect.ValueOf(f())
	if v.Kind() != reflect.Slice {
		return
	}
	for i := 0; i < v.Len() && i < 64; i++ {
		access(v.Index(i).UnsafeAddr(), "element of "+v.Type().String(), where, false)
	}
}

// Read / Write are inserted by the instrumenter around accesses to struct fields of the package
// and to package-level variables.
func Read(addr uintptr, name, where string)  { access(addr, name, where, false) }
func Write(addr uintptr, name, where string) { access(addr, name, where, true) }

// ---------------------------------------------------------------------------------------------
// shims

// RWMutex models sync.RWMutex with Go's writer preference (a waiting writer blocks new readers).
type RWMutex struct {
	real     rsync.RWMutex
	w        bool
	r        int
	wwait    int
	wvc      VC // released by writers
	rvc      VC // released by readers
	reg      bool
	modelled int // number of holds taken in modelled mode
}

func (m *RWMutex) vreset() {
	m.w, m.r, m.wwait, m.wvc, m.rvc, m.reg, m.modelled = false, 0, 0, nil, nil, false, 0
}

func (m *RWMutex) touch(e *exec) {
	if !m.reg {
		m.reg = true
		e.register(m)
	}
}

func (m *RWMutex) Lock() {
	e := cur
	if e == nil || e.running == nil {
		m.real.Lock()
		return
	}
	m.touch(e)
	e.yield(&pendingOp{kind: opLockAnnounce, label: "Lock(announce)"})
	m.wwait++
	e.yield(&pendingOp{kind: opLock, label: "Lock", enabled: func() bool { return !m.w && m.r == 0 }})
	m.wwait--
	m.w = true
	t := e.running
	t.vc.join(m.wvc)
	t.vc.join(m.rvc)
}

func (m *RWMutex) Unlock() {
	e := cur
	if e == nil || e.running == nil {
		m.real.Unlock()
		return
	}
	if !m.w {
		panic("vsched: Unlock of unlocked RWMutex")
	}
	m.w = false
	t := e.running
	m.wvc.join(t.vc)
	t.vc[t.id]++
}

func (m *RWMutex) RLock() {
	e := cur
	if e == nil || e.running == nil {
		m.real.RLock()
		return
	}
	m.touch(e)
	e.yield(&pendingOp{kind: opRLock, label: "RLock", enabled: func() bool { return !m.w && m.wwait == 0 }})
	m.r++
	e.running.vc.join(m.wvc)
}

func (m *RWMutex) RUnlock() {
	e := cur
	if e == nil || e.running == nil {
		m.real.RUnlock()
		return
	}
	if m.r <= 0 {
		panic("vsched: RUnlock of unlocked RWMutex")
	}
	m.r--
	t := e.running
	m.rvc.join(t.vc)
	t.vc[t.id]++
}

func (m *RWMutex) RLocker() rsync.Locker { return (*rlocker)(m) }

type rlocker RWMutex

func (r *rlocker) Lock()   { (*RWMutex)(r).RLock() }
func (r *rlocker) Unlock() { (*RWMutex)(r).RUnlock() }

// Mutex models sync.Mutex.
type Mutex struct {
	real rsync.Mutex
	held bool
	vc   VC
	reg  bool
}

func (m *Mutex) vreset() { m.held, m.vc, m.reg = false, nil, false }
func (m *Mutex) Lock() {
	e := cur
	if e == nil || e.running == nil {
		m.real.Lock()
		return
	}
	if !m.reg {
		m.reg = true
		e.register(m)
	}
	e.yield(&pendingOp{kind: opLock, label: "Mutex.Lock", enabled: func() bool { return !m.held }})
	m.held = true
	e.running.vc.join(m.vc)
}
func (m *Mutex) Unlock() {
	e := cur
	if e == nil || e.running == nil {
		m.real.Unlock()
		return
	}
	m.held = false
	t := e.running
	m.vc.join(t.vc)
	t.vc[t.id]++
}

type (
	Locker = rsync.Locker
	Cond   = rsync.Cond
)

// Once models sync.Once: the first Do runs f, every other Do waits for it to finish and then
// observes everything f did (release/acquire on the Once's clock). "Done" survives across
// executions like any other package-level state would; the clock does not.
type Once struct {
	mu      rsync.Mutex
	done    bool
	running bool
	vc      VC
	reg     bool
}

func (o *Once) vreset() { o.running, o.vc, o.reg = false, nil, false }

func (o *Once) Do(f func()) {
	e := cur
	if e == nil || e.running == nil {
		o.mu.Lock()
		defer o.mu.Unlock()
		if !o.done {
			defer func() { o.done = true }()
			f()
		}
		return
	}
	if !o.reg {
		o.reg = true
		e.register(o)
	}
	e.yield(&pendingOp{kind: opLock, label: "Once.Do", enabled: func() bool { return !o.running }})
	if o.done {
		e.running.vc.join(o.vc)
		return
	}
	o.running = true
	defer func() {
		o.running, o.done = false, true
		if t := e.running; t != nil {
			o.vc.join(t.vc)
			t.vc[t.id]++
		}
	}()
	f()
}

// WaitGroup models sync.WaitGroup: Done releases, Wait blocks (visibly to the scheduler) until the
// counter is zero and acquires.
type WaitGroup struct {
	real rsync.WaitGroup
	n    int
	vc   VC
	reg  bool
}

func (w *WaitGroup) vreset() { w.n, w.vc, w.reg = 0, nil, false }

func (w *WaitGroup) Add(delta int) {
	e := cur
	if e == nil || e.running == nil {
		w.real.Add(delta)
		return
	}
	if !w.reg {
		w.reg = true
		e.register(w)
	}
	w.n += delta
	if w.n < 0 {
		panic("sync: negative WaitGroup counter")
	}
	if delta < 0 {
		t := e.running
		w.vc.join(t.vc)
		t.vc[t.id]++
	}
}

func (w *WaitGroup) Done() { w.Add(-1) }

func (w *WaitGroup) Wait() {
	e := cur
	if e == nil || e.running == nil {
		w.real.Wait()
		return
	}
	if !w.reg {
		w.reg = true
		e.register(w)
	}
	e.yield(&pendingOp{kind: opLock, label: "WaitGroup.Wait", enabled: func() bool { return w.n == 0 }})
	e.running.vc.join(w.vc)
}

// Map models sync.Map: every operation is a scheduling point and synchronises with every other
// operation on the same map (acquire + release on the map's clock - conservative: never a false
// race through a sync.Map).
type Map struct {
	real rsync.Map
	vc   VC
	reg  bool
}

func (m *Map) vreset() { m.vc, m.reg = nil, false }

func (m *Map) hb(label string) {
	e := cur
	if e == nil || e.running == nil {
		return
	}
	if !m.reg {
		m.reg = true
		e.register(m)
	}
	e.yield(&pendingOp{kind: opPoint, label: label})
	t := e.running
	t.vc.join(m.vc)
	m.vc.join(t.vc)
	t.vc[t.id]++
}

func (m *Map) Load(k interface{}) (interface{}, bool) { m.hb("Map.Load"); return m.real.Load(k) }
func (m *Map) Store(k, v interface{})                 { m.hb("Map.Store"); m.real.Store(k, v) }
func (m *Map) LoadOrStore(k, v interface{}) (interface{}, bool) {
	m.hb("Map.LoadOrStore")
	return m.real.LoadOrStore(k, v)
}
func (m *Map) LoadAndDelete(k interface{}) (interface{}, bool) {
	m.hb("Map.LoadAndDelete")
	return m.real.LoadAndDelete(k)
}
func (m *Map) Delete(k interface{}) { m.hb("Map.Delete"); m.real.Delete(k) }
func (m *Map) Swap(k, v interface{}) (interface{}, bool) {
	m.hb("Map.Swap")
	return m.real.Swap(k, v)
}
func (m *Map) CompareAndSwap(k, o, n interface{}) bool {
	m.hb("Map.CompareAndSwap")
	return m.real.CompareAndSwap(k, o, n)
}
func (m *Map) CompareAndDelete(k, o interface{}) bool {
	m.hb("Map.CompareAndDelete")
	return m.real.CompareAndDelete(k, o)
}
func (m *Map) Range(f func(k, v interface{}) bool) { m.hb("Map.Range"); m.real.Range(f) }
func (m *Map) Clear()                              { m.hb("Map.Clear"); m.real.Clear() }

// AtomicPoint / AtomicSync are called by the sync/atomic shim (package vatomic) before and after
// every atomic operation: a scheduling point, then acquire + release on a per-address clock.
func AtomicPoint(label string) {
	e := cur
	if e == nil || e.running == nil {
		return
	}
	e.yield(&pendingOp{kind: opPoint, label: label})
}

func AtomicSync(addr uintptr) {
	e := cur
	if e == nil || e.running == nil {
		return
	}
	v, ok := chanVC[addr]
	if !ok {
		v = &VC{}
		chanVC[addr] = v
	}
	t := e.running
	t.vc.join(*v)
	v.join(t.vc)
	t.vc[t.id]++
}

// Pool models sync.Pool: Get may return any pooled object or a new one (the real pool may drop
// objects at any time) - an explorer choice with fan-out |pool|+1.
type Pool struct {
	New   func() interface{}
	real  rsync.Pool
	items []poolItem
	reg   bool
	once  bool
}

type poolItem struct {
	v  interface{}
	vc VC
}

func (p *Pool) vreset() { p.items, p.reg = nil, false }

func (p *Pool) Get() interface{} {
	e := cur
	if e == nil || e.running == nil {
		if !p.once {
			p.once = true
			p.real.New = p.New
		}
		return p.real.Get()
	}
	if !p.reg {
		p.reg = true
		e.register(p)
	}
	e.yield(&pendingOp{kind: opPoolGet, label: "Pool.Get"})
	n := len(p.items)
	fan := n
	if p.New != nil || n == 0 {
		fan = n + 1
	}
	// choice 0 = most recently put object (what a quiet sync.Pool does), last = New
	c := Choose(fan, "Pool.Get")
	if c < n {
		idx := n - 1 - c
		it := p.items[idx]
		p.items = append(p.items[:idx:idx], p.items[idx+1:]...)
		e.running.vc.join(it.vc)
		return it.v
	}
	if p.New != nil {
		return p.New()
	}
	return nil
}

func (p *Pool) Put(x interface{}) {
	e := cur
	if e == nil || e.running == nil {
		if !p.once {
			p.once = true
			p.real.New = p.New
		}
		p.real.Put(x)
		return
	}
	if !p.reg {
		p.reg = true
		e.register(p)
	}
	e.yield(&pendingOp{kind: opPoolPut, label: "Pool.Put"})
	t := e.running
	p.items = append(p.items, poolItem{x, t.vc.clone()})
	t.vc[t.id]++
}

// PoolLen reports how many objects a modelled pool holds (evidence / oracles).
func (p *Pool) PoolLen() int { return len(p.items) }

// MapOrder returns the keys of a string-keyed map in an order chosen by the explorer (every
// permutation is an alternative). Outside an execution: sorted order.
func MapOrder(m interface{}) []string {
	rv := reflect.ValueOf(m)
	keys := make([]string, 0, rv.Len())
	for _, k := range rv.MapKeys() {
		keys = append(keys, k.String())
	}
	sort.Strings(keys)
	if cur == nil || cur.running == nil {
		if mapOrderHook != nil {
			return mapOrderHook(keys)
		}
		return keys
	}
	// choose a permutation by successive choices (Lehmer code)
	out := make([]string, 0, len(keys))
	rest := keys
	for len(rest) > 0 {
		c := Choose(len(rest), "map-order")
		out = append(out, rest[c])
		rest = append(append([]string{}, rest[:c]...), rest[c+1:]...)
	}
	return out
}

var mapOrderHook func([]string) []string

// SetMapOrderHook lets a sequential (E1) check own map iteration order without a scheduler.
func SetMapOrderHook(f func([]string) []string) { mapOrderHook = f }

// ---------------------------------------------------------------------------------------------
// running one execution

//go:noinline
func growStack() {
	var buf [192 << 10]byte
	sink(buf[:])
}

//go:noinline
func sink(b []byte) {
	if len(b) > 0 {
		b[0], b[len(b)-1] = 1, 1
	}
}

// Body is the code of one controlled thread.
type Body struct {
	Name string
	Run  func()
}

// RunOnce executes the bodies under the given choice prefix (then default choices) and returns
// the complete execution. trackRaces enables the vector-clock detector.
func RunOnce(bodies []Body, prefix []int, trackRaces bool, horizon int) *Execution {
	if cur != nil {
		panic("vsched: nested execution")
	}
	if horizon <= 0 {
		horizon = 10000
	}
	e := &exec{sched: make(chan struct{}), finish: make(chan struct{}), prefix: prefix, x: &Execution{Panics: map[int]string{}},
		mem: map[uintptr]*shadow{}, raceSeen: map[string]bool{}, horizon: horizon, trackRaces: trackRaces}
	chanVC = map[uintptr]*VC{}
	n := len(bodies)
	for i, b := range bodies {
		t := &thread{id: i + 1, name: b.Name, wake: make(chan struct{}), body: b.Run, vc: make(VC, n+1)}
		t.vc[t.id] = 1
		e.threads = append(e.threads, t)
	}
	cur = e
	// start every thread; each parks at its start point
	for _, t := range e.threads {
		t := t
		e.running = t
		go func() {
			defer func() {
				if r := recover(); r != nil {
					t.Panic = r
					buf := make([]byte, 4096)
					t.PanicStack = string(buf[:runtime.Stack(buf, false)])
				}
				t.done = true
				e.sched <- struct{}{}
				<-e.finish // keep the goroutine (and its stack) alive until the execution is over
			}()
			// The detector keys shadow state by address, so no memory may change hands between
			// threads inside an execution: the stack is grown once, up front (it is never shrunk
			// because the collector is off while executions run), and the goroutine stays alive
			// until the execution is over.
			growStack()
			e.yield(&pendingOp{kind: opStart, label: "start"})
			t.body()
		}()
		<-e.sched
	}
	e.running = nil
	for {
		var en []*thread
		if e.last != nil && !e.last.done && e.last.pending != nil && (e.last.pending.enabled == nil || e.last.pending.enabled()) {
			en = append(en, e.last)
		}
		runStill := len(en) == 1
		undone := 0
		for _, t := range e.threads {
			if t.done {
				continue
			}
			undone++
			if t == e.last {
				continue
			}
			if t.pending.enabled == nil || t.pending.enabled() {
				en = append(en, t)
			}
		}
		// threads disabled inside a channel operation are "blocked in a provider operation"
		for _, t := range e.threads {
			if !t.done && t.pending != nil && t.pending.inProvider && t.pending.enabled != nil && !t.pending.enabled() {
				dup := false
				for _, b := range e.x.Blocked {
					if b.Thread == t.id && b.Op == t.pending.label {
						dup = true
					}
				}
				if !dup {
					e.x.Blocked = append(e.x.Blocked, Blocked{t.id, t.pending.label})
				}
			}
		}
		if len(en) == 0 {
			if undone > 0 {
				e.x.Deadlock = true
				for _, t := range e.threads {
					if !t.done {
						e.x.Stuck = append(e.x.Stuck, fmt.Sprintf("T%d(%s) waits at %s", t.id, t.name, t.pending.label))
					}
				}
			}
			break
		}
		if len(e.x.Points) >= e.horizon {
			e.x.Horizon = true
			break
		}
		c := e.nextChoice(len(en))
		ids := make([]int, len(en))
		for i, t := range en {
			ids[i] = t.id
		}
		t := en[c]
		if runStill && c != 0 {
			e.x.Preemptions++
		}
		e.x.Points = append(e.x.Points, Point{Fanout: len(en), Chosen: c, Enabled: ids, RunStill: runStill, Label: t.pending.label})
		e.x.Trace = append(e.x.Trace, fmt.Sprintf("T%d:%s", t.id, t.pending.label))
		e.running, e.last = t, t
		t.wake <- struct{}{}
		<-e.sched
		e.running = nil
	}
	for _, t := range e.threads {
		if t.Panic != nil {
			e.x.Panics[t.id] = fmt.Sprint(t.Panic)
		}
	}
	e.x.Steps = len(e.x.Points)
	sharedSet := map[string]bool{}
	for _, sh := range e.mem {
		if sh.tids&(sh.tids-1) != 0 {
			sharedSet[sh.name] = true
		}
	}
	for n := range sharedSet {
		e.x.Shared = append(e.x.Shared, n)
	}
	sort.Strings(e.x.Shared)
	// parked threads of a deadlocked / cut execution are abandoned (their goroutines leak)
	cur = nil
	close(e.finish)
	for _, o := range e.objs {
		o.vreset()
	}
	return e.x
}

// PanicStack returns the recovered stack of a thread of the last execution (debugging aid).
func PreemptionsBefore(x *Execution, i int) int {
	n := 0
	for j := 0; j < i && j < len(x.Points); j++ {
		p := x.Points[j]
		if !p.Data && p.RunStill && p.Chosen != 0 {
			n++
		}
	}
	return n
}

// ---------------------------------------------------------------------------------------------
// explorer: depth-first over choice sequences with a preemption bound

type Stats struct {
	Schedules int
	Points    int // scheduling points visited (states)
	Decisions int // decisions taken (transitions)
	Deadlocks int
	Cut       bool // stopped by MaxSchedules
	MaxDepth  int
}

// Explore enumerates every execution of run with at most bound preemptions. run executes one
// schedule for a choice prefix; visit is called for each complete execution and returns false to
// stop the search. maxSchedules <= 0 means unbounded.
func Explore(bound int, maxSchedules int, run func(prefix []int) *Execution, visit func(x *Execution) bool) Stats {
	var st Stats
	stop := false
	var rec func(prefix []int)
	rec = func(prefix []int) {
		if stop {
			return
		}
		if maxSchedules > 0 && st.Schedules >= maxSchedules {
			st.Cut = true
			stop = true
			return
		}
		x := run(prefix)
		st.Schedules++
		st.Points += len(x.Points)
		st.Decisions += len(x.Points) - len(prefix)
		if len(x.Points) > st.MaxDepth {
			st.MaxDepth = len(x.Points)
		}
		if x.Deadlock {
			st.Deadlocks++
		}
		if !visit(x) {
			stop = true
			return
		}
		pre := 0
		preAt := make([]int, len(x.Points)+1)
		for i, p := range x.Points {
			preAt[i] = pre
			if !p.Data && p.RunStill && p.Chosen != 0 {
				pre++
			}
		}
		for i := len(prefix); i < len(x.Points); i++ {
			p := x.Points[i]
			for alt := 1; alt < p.Fanout; alt++ {
				cost := preAt[i]
				if !p.Data && p.RunStill {
					cost++
				}
				if cost > bound {
					continue
				}
				np := make([]int, i+1)
				copy(np, x.Choices[:i])
				np[i] = alt
				rec(np)
				if stop {
					return
				}
			}
		}
	}
	rec(nil)
	return st
}

// ---------------------------------------------------------------------------------------------
// package-level state of the package under test

// GlobalSnapshot holds the values of the package-level variables of the package under test as
// they were before the first execution. Restoring it before every execution makes executions
// independent of each other: a lazily built global is built again (and its construction explored
// under every schedule) instead of being found ready by every execution after the first.
// Depth: the variable itself; for a map its entries; for a non-nil pointer the struct it points
// to; and the entries of map-typed fields of that struct (or of a struct-typed variable).
type GlobalSnapshot struct{ vars []savedVar }

type savedVar struct {
	ptr     reflect.Value // pointer to the variable
	val     reflect.Value // copy of its value
	pointee reflect.Value // copy of *val for pointer-typed variables (invalid otherwise)
}

func copyOf(v reflect.Value) reflect.Value {
	c := reflect.New(v.Type()).Elem()
	c.Set(v)
	return c
}

func settable(v reflect.Value) reflect.Value {
	if v.CanSet() {
		return v
	}
	return reflect.NewAt(v.Type(), unsafe.Pointer(v.UnsafeAddr())).Elem()
}

func copyMap(m reflect.Value) reflect.Value {
	if m.IsNil() {
		return reflect.Zero(m.Type())
	}
	c := reflect.MakeMapWithSize(m.Type(), m.Len())
	for it := m.MapRange(); it.Next(); {
		c.SetMapIndex(it.Key(), it.Value())
	}
	return c
}

// freshMaps replaces v itself (if a map) or the map-typed fields of v (if a struct) by copies.
func freshMaps(v reflect.Value) {
	switch v.Kind() {
	case reflect.Map:
		v.Set(copyMap(v))
	case reflect.Struct:
		for i := 0; i < v.NumField(); i++ {
			if f := v.Field(i); f.Kind() == reflect.Map {
				f = settable(f)
				f.Set(copyMap(f))
			}
		}
	}
}

func SnapshotGlobals(ptrs []interface{}) *GlobalSnapshot {
	s := &GlobalSnapshot{}
	for _, p := range ptrs {
		pv := reflect.ValueOf(p)
		sv := savedVar{ptr: pv, val: copyOf(pv.Elem())}
		freshMaps(sv.val)
		if sv.val.Kind() == reflect.Ptr && !sv.val.IsNil() {
			sv.pointee = copyOf(sv.val.Elem())
			freshMaps(sv.pointee)
		}
		s.vars = append(s.vars, sv)
	}
	return s
}

func (s *GlobalSnapshot) Restore() {
	for _, sv := range s.vars {
		v := copyOf(sv.val)
		freshMaps(v)
		sv.ptr.Elem().Set(v)
		if sv.pointee.IsValid() {
			pv := copyOf(sv.pointee)
			freshMaps(pv)
			sv.ptr.Elem().Elem().Set(pv)
		}
	}
}
