module verif

go 1.23

require (
	github.com/anishathalye/porcupine v1.3.0
	github.com/emicklei/go-restful/v3 v3.12.0
)

replace github.com/emicklei/go-restful/v3 => /repo
