#!/usr/bin/env python3
"""Regenerates /verif/MANIFEST.json from the table below (kept in one place so that the
not_applicable list is always the complement of the claimed checks)."""
import json, os
root = os.path.dirname(os.path.dirname(os.path.abspath(__file__)))
ids = [json.loads(l)['id'] for l in open(os.path.join(root, 'properties.jsonl'))]

E1 = "E1 enum (cmd/vcheck + harness/rs + harness/refmodel)"
E2 = "E2 hist (explicit-state search over operation histories, cmd/vcheck)"
E3 = "E3 sched (engine/vsched + cmd/vinstr + cmd/vcheck/e3.go)"
MIX = "E1 enum + E2 hist + E3 sched"
CHECKS = {
 "C01": dict(engine=E1, sec="§6 C01", technique="bounded exhaustive enumeration of route tables x requests on the real routers; soundness oracle from an executable reference model",
   text="Exhaustive enumeration (explicit-state, depth-1 histories) of every route table over the stated template/header alphabets (1-2 routes quick, up to 3 thorough; both routers) times every request over the path/method/header alphabets; on each of the ~5*10^7 real dispatches in which a route function runs, every clause of the statement is evaluated against the reference model (method, template admits path, Consumes, Produces, conditions evaluated and true, selected route seen by filter and handler). Bounded guarantee: no unsound invocation exists within the alphabets.",
   note="Trusted: reference model of DESIGN.md §5 (boring, self-describing), Go toolchain. Alphabets bound the claim (templates <= 3 tokens, listed token classes, listed headers)."),
 "C02": dict(engine=E1, sec="§6 C02", technique="bounded exhaustive enumeration of route tables x requests (incl. adversarial paths), exact-outcome oracle from the reference model, trace off/on",
   text="Every (table, request) case of the sweeps P1/P2/H1/H2/X2 (thorough: P3, larger alphabets) is dispatched on a fresh real container under both routers with trace logging off and on; the observed outcome (panic?, status, invocation count and identity, Allow set) must equal the reference model's expected outcome for some maximal claiming root. P1 also goes through ServeHTTP for never-panics/at-most-once.",
   note="Trusted: reference model; RouterJSR311 best root unspecified when variable roots compete (any claiming root accepted, as the quantifier says)."),
 "C03": dict(engine=E1, sec="§6 C03", technique="exhaustive enumeration of tables x all registration-order permutations x requests; differential + specificity oracle",
   text="For every 2- and 3-route table (after the property's exclusions) all permutations of the Add order and of the Route order are built as real containers and every request is dispatched on all of them: outcomes must be identical, and the invoked route must be a most-specific eligible route of a maximal claiming root. Also: two routes declared through one reused RouteBuilder (P2r), and 2-3 services over colliding root paths in every Add order through ServeHTTP (S2/S3: status, route and Location must not depend on the order).",
   note="Partial specificity order of DESIGN.md §5; incomparable candidates are accepted either way. Recorded finding F21 (through ServeHTTP, net/http's subtree redirect depends on whether a service with mux pattern / was added first) matched by a narrow signature."),
 "C04": dict(engine=E1, sec="§6 C04", technique="exhaustive enumeration of templates x matching paths; bindings compared with reference bindings and substituted back",
   text="Every invocation reached in the path sweeps (both routers, also on containers whose router was switched beforehand and on containers that served under the other router before they were switched) has its PathParameters() compared as a map with the reference bindings of the full template, and substituted back into the template to reproduce the request path.",
   note="Templates that declare one variable name twice are skipped (binding undefined). Trusted: reference model."),
 "C14": dict(engine=E1, sec="§6 C14", technique="exhaustive differential enumeration: p vs p/ on the same container",
   text="For every table of the path/cross sweeps and every path p with a non-empty last segment, p, p/ and p again are dispatched on one real container; status, route, parameters and Allow set must be identical. CurlyRouter on all templates, RouterJSR311 on tables without tail wildcard.",
   note="Purely differential, no model. Default path strategy only."),
 "C17": dict(engine=E1, sec="§6 C17", technique="exhaustive enumeration of tables x URLs x methods; Allow sets compared with the measured routable set on a filter-less twin",
   text="For every table over the common template fragment and every URL, one probe per method on a container with the OPTIONS filter and on a filter-less twin; every 405 Allow set and the OPTIONS filter's Allow / Access-Control-Allow-Methods must equal the measured routable set; OPTIONS invokes nothing; other methods are unaffected by the filter.",
   note="Recorded finding F10 (nested roots over-report) is matched by a narrow signature; any other mismatch is a violation."),
 "C18": dict(engine=E1, sec="§6 C18", technique="exhaustive differential enumeration: twin containers differing only in router",
   text="Every table of the common fragment (literal roots incl. nested, literal or {v} route tokens, literals with regex metacharacters and of different lengths, all methods through the per-method shortcuts, 32-route tables in 512 registration orders) times every request is dispatched on a CurlyRouter and a RouterJSR311 twin; status, route, parameters and Allow set must agree.",
   note="Recorded findings F12 (non-canonical paths: Curly routes, JSR311 404) and F17 (crossing templates with literals of different length are ranked differently) matched by narrow signatures."),
 "C05": dict(engine="E1 enum on the instrumented build (cmd/vcheck/c05.go; map iteration order owned through engine/vsched.MapOrder)", sec="§6 C05", technique="bounded exhaustive enumeration of Produces lists x abstract Accept headers x all optional-whitespace renderings; reference ranking; enumeration of every map iteration order where the lookup reaches a map range",
   text="Every non-empty duplicate-free Produces sequence over {json, xml, custom vnd} x every Accept header of 0-2 abstract ranges (plus 3-range and 13-20-range families) x 64 whitespace renderings x DefaultResponseMimeType x registered-writer set: Content-Type equals the reference ranking (q descending, header order on ties, */* = first Produces entry) and the body decodes; all renderings agree; never 406 after the router admitted; every iteration order of the accessor map gives the same answer.",
   note="Instrumenter owns the map range in accessorAt; other map ranges are listed in the evidence. Recorded finding F14 (absent Accept + package default) matched by a narrow signature."),
 "C07": dict(engine=E1, sec="§6 C07", technique="exhaustive enumeration of entry point x switches x Accept-Encoding x pre-set encodings x payload/chunking x outcome kind x provider with an identity twin and a ledger provider",
   text="Full product for 'Hello World' over 6 entry paths, container switch, route override, 9 Accept-Encoding values, pre-encoded / already-compressing writers, 7 outcome kinds (incl. 404/405 and recovered panics) and 3 providers, plus every payload x chunking on every entry; each case next to an identity twin: clause-by-clause oracle (labelled gzip/deflate, mentioned in Accept-Encoding, enabled for that request, strict decode to exactly the bytes written, never twice, nothing when the writer arrived encoded), ledger balanced.",
   note="Recorded finding F9 (ServeHTTP encodes despite route override false) matched narrowly: only correctly-encoded responses on exactly that configuration."),
 "C10": dict(engine="E1/E2 crash-point enumeration executed under E3's controlled scheduler (cmd/vcheck/c10.go)", sec="§6 C10", technique="exhaustive crash-point enumeration (panic positions x values x recovery x encoding x provider x entry x router) and request sequences, each run as a single controlled thread so a leaked lock is a deadlock verdict",
   text="Every panic position of 10 chain shapes (filters before/after passing on, handler before/after partial output/after WriteEntity, the condition function, also on requests that fail routing) x panic value x recovery {off, default, custom} (plus the configuration-order cases: a handler registered while recovery is off, settings applied before Add / after Add / after a first request / toggled) x encoding x provider under a ledger x entry x router; recover handler called exactly once with the value, nothing escapes (or the identical value with recovery off), complete decodable body, ledger balanced, and a probe set (request, Add, Remove) answered as by a fresh container; plus all sequences of 2 (3) requests over {normal, panic at p}.",
   note="Default recover handler output compared up to the panic value line. Panics of plain http.Handlers are outside the statement."),
 "C15": dict(engine=E1, sec="§6 C15", technique="exhaustive enumeration of Response call sequences x fault position x short-write length over a counting, failing writer",
   text="Every sequence (optional first call of 11 kinds x status x value, then 0-2 (3) raw Writes) x pretty-print x Accept x {no coding with the k-th write accepting j bytes and failing, gzip coding fault-free}: StatusCode() equals the status the writer received, ContentLength() the bytes it accepted (or the decoded length under coding), the failing call returns the injected error.",
   note="Observed by a container filter after the handler inside a real dispatch."),
 "C16": dict(engine="E1 enum + E2 hist", sec="§6 C16", technique="exhaustive enumeration of values x Content-Type spellings x encodings through the real writer and reader; explicit-state search over sequences of well-formed and broken bodies on one provider",
   text="90 values (64-bit extremes, unicode, metacharacters, nested slices) x codec x Content-Type spelling x Content-Encoding x pretty x provider x target (struct / generic map with exact numbers) round-trip through WriteEntity and ReadEntity; every sequence of <= 3 (4) bodies over 13 well-formed/truncated/flipped/mis-declared/empty bodies: same result as when sent first on a fresh provider, broken => error, never a panic, provider ledger clean.",
   note="Recorded finding F13 (damaged gzip trailer not reported) matched narrowly: intact payload, correct value returned."),
 "C06": dict(engine=MIX, sec="§6 C06", technique="exhaustive enumeration of filter configurations and request sequences against a ten-line model; stateless exploration of all schedules of concurrent requests (preemption-bounded) with happens-before race detection",
   text="E1: all 29k+ assignments of five filter behaviours to up to 2+2+2 filters (plus three at one level, the library's own CORS filter at each level, and configurations behind an application-provided RouteSelector) x 7-8 request kinds, per-request event log (with the view each filter/handler has of the pair, attributes, context and writer) equal to the model. E2: every sequence of <= 3 (4) requests on one container. E3: 2 (3) concurrent requests on the instrumented real package under the controlled scheduler, yields at every filter entry/exit and handler, all schedules up to the preemption bound; supplementary free-running -race pass.",
   note="Trusted: the ten-line chain model; E3 trusted base as for C12."),
 "C08": dict(engine=E1, sec="§6 C08", technique="exhaustive enumeration of CORS configurations x near-miss origins x requests, paired with a filter-less twin",
   text="Full product of allowed-domain lists, predicate, cookie/expose/max-age settings, filter position and router with origins derived from the entries by mutation operators (case, prefix, suffix, superstring, regex-dot, scheme, null, wildcard literals, absent) and 8 request shapes; any Access-Control-* header implies allowed(origin) (the statement's rule transcribed); Allow-Origin echoes the Origin once; credentials only if configured; otherwise the response equals the twin's in status, headers, body and event log.",
   note="Fresh filter per request; history effects belong to C09/C19."),
 "C09": dict(engine=MIX, sec="§6 C09", technique="exhaustive enumeration of preflights against the statement's grant rule; explicit-state search over preflight sequences; schedule exploration of concurrent preflights with HB race detection",
   text="E1: configurations x (URL x origin x requested method x requested-header list) against the grant rule, routable methods measured on a twin; preflights run no later filter or handler; actual requests get each header exactly once. E2: every sequence of <= 3 (4) preflights on one filter equals a fresh filter's answer. E3: concurrent preflights through one filter value, all schedules within the bound, vector-clock race detection on the filter's fields.",
   note="Method-name case is not decided by the statement: either answer accepted."),
 "C11": dict(engine=E2, sec="§6 C11", technique="breadth-first explicit-state search over registration histories; differential oracle against a fresh container built from the abstract state",
   text="BFS over histories of Add/Remove/Route/RemoveRoute/Handle (depth 4 quick, 5 thorough) on root paths that collide in every way the mux registration can, and over a second small universe (a service declared without Path(), dynamic route on the empty sub-path); each successor is the history replayed on a fresh real container; in every reached state ~90 probes through ServeHTTP and Dispatch must equal a container built directly from the abstract content; no operation may panic.",
   note="States merged on abstract content (plus probe signature when deviating). Duplicate roots are outside the quantifier; one duplicate Handle (rejected by net/http with a panic that the caller recovers, registering nothing) is part of the alphabet."),
 "C12": dict(engine=E3, sec="§6 C12", technique="stateless model checking of the real code under a controlled scheduler (iterative preemption bounding), vector-clock race detection, porcupine linearizability against the sequentially replayed container",
   text="Serving threads against mutating threads (Add, Remove, Route, RemoveRoute, a condition that panics under the read lock, the OPTIONS filter walking services and routes, a route function that itself adds a service, Removes beside a plain handler, Route against RemoveRoute, a route inheriting the service's media types added while a sibling is negotiated), both routers x both entry points; every schedule up to the bound: no HB race on any struct field / package variable / slice element / map of the package, no panic, no deadlock, history linearizable w.r.t. registration states that existed during each request, requests to untouched services answered as on the initial container. Supplementary: same bodies free-running under -race on the uninstrumented package.",
   note="Sequential consistency at synchronisation granularity; race detection over struct fields, package variables, slice elements and whole maps of the package under test (standard-library internals only in the sampled -race pass); shim RWMutex models writer preference; package-level variables are restored before every execution. Recorded finding F18 (ServeHTTP: mux consulted before a Remove, service list after it) matched by a relaxed-linearizability signature."),
 "C13": dict(engine=E3, sec="§6 C13", technique="stateless model checking under a controlled scheduler with an instrumenting ledger provider; blocked-in-provider detection by enabledness, not time",
   text="All schedules (bound 2 quick / 3 thorough) of 2-3 concurrent requests of kinds {gzip, deflate, routing error, recovered panic, double Close, failing writer, gzip request body in chunks, corrupt gzip body, a handler that takes Content-Encoding off the response} for providers bounded(0/1/2), bounded caches with unequal writer/reader capacities (2,1) (1,0) (1,2) and sync.Pool (hand-out owned by the explorer; provider construction runs under the scheduler as well) through both entry points: ledger clean (exclusive use, released exactly once), no thread ever disabled inside a provider operation, no deadlock, every response decodes to its own payload.",
   note="compress/* trusted; shim Pool over-approximates sync.Pool (any pooled object or a new one)."),
 "C19": dict(engine=MIX, sec="§6 C19", technique="explicit-state search over request histories (differential vs fresh container, trace on/off); schedule exploration of concurrent request pairs with HB race detection",
   text="E2: 5 configurations x 2 routers x 2 entry points x trace off/on: every sequence of length <= 2 (3) over a 27-request set and of length 3 (4) over its 14-request core (every history starting from the same restored package-level state), and the 1000-fold repetition of each request; last response (status, headers verbatim, decoded body with echoed parameters/attribute/selected route) equals the fresh-container response. E3: every pair (triples in thorough) concurrently, all schedules within the bound, same oracle, race detection; supplementary free-running -race pass.",
   note="Differential; handlers additionally self-check that their own view does not change while they run (nested dispatch)."),
}

checks = []
for cid in sorted(CHECKS):
    c = CHECKS[cid]
    checks.append({
        "property_id": cid,
        "quick_cmd": "bin/vcheck %s quick" % cid,
        "thorough_cmd": "bin/vcheck %s thorough" % cid,
        "evidence_file": "evidence/%s.json" % cid,
        "replay_cmd_template": "bin/vcheck replay {path}",
        "engine": c["engine"],
        "level_claimed": {"category": "model_checking", "text": c["text"], "design_ref": "DESIGN.md " + c["sec"]},
        "level_note": c["note"],
        "technique": c["technique"],
    })
na = [{"property_id": i, "reason": "check not built yet (work in progress; design in DESIGN.md §6)"} for i in ids if i not in CHECKS]
m = {
 "version": 1,
 "setup_cmd": "bin/setup",
 "hooks": {"guard": "verif",
   "enable": "no hook source lives in /repo: bin/vcheck regenerates the instrumentation from /repo's working tree on every run (cmd/vinstr -> go build -tags verif -overlay <generated>); E1/E2 checks link the plain package",
   "baseline_off_cmd": "cd /repo && go test -mod=mod -vet=off -count=1 ./...",
   "source_commits": [], "add_only": True},
 "engines": [
   {"name": "E1 enum", "path": "cmd/vcheck, harness/rs, harness/refmodel, harness/h", "serves_properties": sorted(k for k, v in CHECKS.items() if v["engine"] in (E1, MIX)),
    "kind_free_text": "bounded exhaustive enumeration of configurations x inputs on fresh real containers, sharded over 16 workers; oracle = executable reference model or differential twin"},
   {"name": "E2 hist", "path": "cmd/vcheck (c11.go, c09.go, c06.go, c19.go)", "serves_properties": sorted(k for k, v in CHECKS.items() if v["engine"] in (E2, MIX)),
    "kind_free_text": "explicit-state search over operation / request histories: successor = history replayed on a fresh real container; differential oracle against the container built from the abstract state"},
   {"name": "E3 sched", "path": "engine/vsched (scheduler, sync shims, DFS explorer, vector clocks), cmd/vinstr (go/types instrumenter -> build overlay), cmd/vcheck/e3.go", "serves_properties": sorted(k for k, v in CHECKS.items() if v["engine"] in (E3, MIX)),
    "kind_free_text": "hand-written CHESS-style stateless model checker: cooperative scheduler over the package's own sync operations (import sync rewritten to shims, yields before channel operations), DFS over choice sequences with iterative preemption bounding, owned Pool hand-out and map order, HB race detection; worker processes per scenario"},
 ],
 "checks": checks,
 "notes": "Every check rebuilds its binary from /repo's current working tree (bin/vcheck). Exit 0 = held on everything explored; exit 1 + VIOLATION line = violation; exit 2 = the check itself is broken. known_findings.json lists recorded and fixed defects.",
 "not_applicable": na,
}
json.dump(m, open(os.path.join(root, 'MANIFEST.json'), 'w'), indent=1)
print("checks:", len(checks), "not_applicable:", len(na))
