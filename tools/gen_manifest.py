#!/usr/bin/env python3
"""Regenerates /verif/MANIFEST.json from the table below (kept in one place so that the
not_applicable list is always the complement of the claimed checks)."""
import json, os
root = os.path.dirname(os.path.dirname(os.path.abspath(__file__)))
ids = [json.loads(l)['id'] for l in open(os.path.join(root, 'properties.jsonl'))]

E1 = "E1 enum (cmd/vcheck + harness/rs + harness/refmodel)"
CHECKS = {
 "C01": dict(engine=E1, sec="§6 C01", technique="bounded exhaustive enumeration of route tables x requests on the real routers; soundness oracle from an executable reference model",
   text="Exhaustive enumeration (explicit-state, depth-1 histories) of every route table over the stated template/header alphabets (1-2 routes quick, up to 3 thorough; both routers) times every request over the path/method/header alphabets; on each of the ~5*10^7 real dispatches in which a route function runs, every clause of the statement is evaluated against the reference model (method, template admits path, Consumes, Produces, conditions evaluated and true, selected route seen by filter and handler). Bounded guarantee: no unsound invocation exists within the alphabets.",
   note="Trusted: reference model of DESIGN.md §5 (boring, self-describing), Go toolchain. Alphabets bound the claim (templates <= 3 tokens, listed token classes, listed headers)."),
 "C02": dict(engine=E1, sec="§6 C02", technique="bounded exhaustive enumeration of route tables x requests (incl. adversarial paths), exact-outcome oracle from the reference model, trace off/on",
   text="Every (table, request) case of the sweeps P1/P2/H1/H2/X2 (thorough: P3, larger alphabets) is dispatched on a fresh real container under both routers with trace logging off and on; the observed outcome (panic?, status, invocation count and identity, Allow set) must equal the reference model's expected outcome for some maximal claiming root. P1 also goes through ServeHTTP for never-panics/at-most-once.",
   note="Trusted: reference model; RouterJSR311 best root unspecified when variable roots compete (any claiming root accepted, as the quantifier says)."),
 "C03": dict(engine=E1, sec="§6 C03", technique="exhaustive enumeration of tables x all registration-order permutations x requests; differential + specificity oracle",
   text="For every 2- and 3-route table (after the property's exclusions) all permutations of the Add order and of the Route order are built as real containers and every request is dispatched on all of them: outcomes must be identical, and the invoked route must be a most-specific eligible route of a maximal claiming root.",
   note="Partial specificity order of DESIGN.md §5; incomparable candidates are accepted either way."),
 "C04": dict(engine=E1, sec="§6 C04", technique="exhaustive enumeration of templates x matching paths; bindings compared with reference bindings and substituted back",
   text="Every invocation reached in the path sweeps (both routers, also on containers whose router was switched beforehand) has its PathParameters() compared as a map with the reference bindings of the full template, and substituted back into the template to reproduce the request path.",
   note="Templates that declare one variable name twice are skipped (binding undefined). Trusted: reference model."),
 "C14": dict(engine=E1, sec="§6 C14", technique="exhaustive differential enumeration: p vs p/ on the same container",
   text="For every table of the path/cross sweeps and every path p with a non-empty last segment, p, p/ and p again are dispatched on one real container; status, route, parameters and Allow set must be identical. CurlyRouter on all templates, RouterJSR311 on tables without tail wildcard.",
   note="Purely differential, no model. Default path strategy only."),
 "C17": dict(engine=E1, sec="§6 C17", technique="exhaustive enumeration of tables x URLs x methods; Allow sets compared with the measured routable set on a filter-less twin",
   text="For every table over the common template fragment and every URL, one probe per method on a container with the OPTIONS filter and on a filter-less twin; every 405 Allow set and the OPTIONS filter's Allow / Access-Control-Allow-Methods must equal the measured routable set; OPTIONS invokes nothing; other methods are unaffected by the filter.",
   note="Recorded finding F10 (nested roots over-report) is matched by a narrow signature; any other mismatch is a violation."),
 "C18": dict(engine=E1, sec="§6 C18", technique="exhaustive differential enumeration: twin containers differing only in router",
   text="Every table of the common fragment (literal roots incl. nested, literal or {v} route tokens, literals with regex metacharacters) times every request is dispatched on a CurlyRouter and a RouterJSR311 twin; status, route, parameters and Allow set must agree.",
   note="Recorded finding F12 (non-canonical paths: Curly routes, JSR311 404) matched by a narrow signature."),
}

checks = []
for cid in sorted(CHECKS):
    c = CHECKS[cid]
    checks.append({
        "property_id": cid,
        "quick_cmd": "bin/vcheck %s quick" % cid,
        "thorough_cmd": "bin/vcheck %s thorough" % cid,
        "evidence_file": "evidence/%s.json" % cid,
        "replay_cmd_template": "bin/vcheck replay {path}",
        "engine": c["engine"],
        "level_claimed": {"category": "model_checking", "text": c["text"], "design_ref": "DESIGN.md " + c["sec"]},
        "level_note": c["note"],
        "technique": c["technique"],
    })
na = [{"property_id": i, "reason": "check not built yet (work in progress; design in DESIGN.md §6)"} for i in ids if i not in CHECKS]
m = {
 "version": 1,
 "setup_cmd": "bin/setup",
 "hooks": {"guard": "verif",
   "enable": "no hook source lives in /repo: bin/vcheck regenerates the instrumentation from /repo's working tree on every run (cmd/vinstr -> go build -tags verif -overlay <generated>); E1/E2 checks link the plain package",
   "baseline_off_cmd": "cd /repo && go test -mod=mod -vet=off -count=1 ./...",
   "source_commits": [], "add_only": True},
 "engines": [
   {"name": "E1 enum", "path": "cmd/vcheck, harness/rs, harness/refmodel, harness/h", "serves_properties": sorted(k for k, v in CHECKS.items() if v["engine"] == E1),
    "kind_free_text": "bounded exhaustive enumeration of configurations x inputs on fresh real containers, sharded over 16 workers; oracle = executable reference model or differential twin"},
 ],
 "checks": checks,
 "notes": "Every check rebuilds its binary from /repo's current working tree (bin/vcheck). Exit 0 = held on everything explored; exit 1 + VIOLATION line = violation; exit 2 = the check itself is broken. known_findings.json lists recorded and fixed defects.",
 "not_applicable": na,
}
json.dump(m, open(os.path.join(root, 'MANIFEST.json'), 'w'), indent=1)
print("checks:", len(checks), "not_applicable:", len(na))
