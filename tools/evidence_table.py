#!/usr/bin/env python3
"""Prints a markdown table of what the last run of every check covered (from evidence/*.json)."""
import json, glob, os
root = os.path.dirname(os.path.dirname(os.path.abspath(__file__)))
print("| check | tier | states | transitions (real executions) | schedules | non-trivial | known findings hit | wall |")
print("|---|---|---|---|---|---|---|---|")
for f in sorted(glob.glob(os.path.join(root, 'evidence', 'C??.json'))):
    e = json.load(open(f)); c = e['coverage']
    kf = ", ".join("%s×%d" % (k, v) for k, v in sorted(c.get('known_findings_hit', {}).items())) or "—"
    print("| %s | %s | %s | %s | %s | %s | %s | %.0f s |" % (e['property_id'], e['tier'], f"{c.get('states',0):,}", f"{c.get('transitions',0):,}",
          f"{c.get('schedules','—')}", f"{c.get('distinct_nontrivial',0):,}", kf, e['wall_s']))
