#!/usr/bin/env python3
"""seed_table.py <matrix-log>...: read `bin/seed-matrix` output lines ("<seed> <check> exit=<rc> <first VIOLATION line>"),
record the catching checks in seeded/<seed>/meta.json (detected_by, own check first) and print one
markdown table row per seed (change = first line of the sub-agent's README)."""
import json, os, re, sys

root = os.path.join(os.path.dirname(os.path.abspath(__file__)), "..")
res = {}
for fn in sys.argv[1:]:
    for line in open(fn):
        m = re.match(r"^(C\d\d[a-z]) (C\d\d) exit=(\d+) ?(.*)$", line.rstrip("\n"))
        if not m:
            continue
        seed, chk, rc, first = m.group(1), m.group(2), int(m.group(3)), m.group(4)
        cls = ""
        mc = re.search(r"class=(\S+)", first)
        if mc:
            cls = mc.group(1)
        res.setdefault(seed, []).append((chk, rc, cls))
for seed in sorted(res):
    own = seed[:3]
    caught = [(c, cls) for c, rc, cls in res[seed] if rc == 1]
    caught.sort(key=lambda x: x[0] != own)
    mp = os.path.join(root, "seeded", seed, "meta.json")
    meta = json.load(open(mp))
    meta["detected_by"] = [c for c, _ in caught]
    meta["detection"] = {c: cls for c, cls in caught}
    json.dump(meta, open(mp, "w"), indent=1)
    title = open(os.path.join(root, "seeded", seed, "README.md")).readline().strip()
    title = re.sub(r"^#?\s*C\d\d\s*/\s*[ab]\s*[-—–]+\s*", "", title)
    owncell = "not by %s" % own
    also = []
    for c, cls in caught:
        if c == own:
            owncell = "**%s** `%s`" % (own, cls)
        else:
            also.append("%s `%s`" % (c, cls))
    missed = [c for c, rc, _ in res[seed] if rc not in (0, 1)]
    if missed:
        also.append("(exit 2 from %s)" % ",".join(missed))
    print("| %s | %s | %s | %s |" % (seed, title, owncell, "; ".join(also) or "—"))
